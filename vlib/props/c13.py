"""C13 - parsers reject bad input only with the documented format error.

Proof: Props/C13.v + Props/C13_<Fmt>.v (only_documented_<fmt> for ALL lists of lines, over abstract oracles typed by exception kinds; except
clauses taken from the regenerated Gen/C13_ExcSpec.v; site layout compared with the layout the models were written for).
Ties: (T) translate/c13_exc.py; (C) the extracted models run on every corruption with the oracles answered by the live
primitives and compared with the real parser's outcome; declared oracle kinds and the exception hierarchy are tested
against the live primitives/classes.  Finder: exception type of parse/parseLines/parseFile is not
StructureFormatError/NotImplementedError.
"""
import hashlib
import io
import json
import os
import re
import time

from translate import c13_exc
from vlib import core
from vlib import c13_corrupt as C
from vlib import c13_oracles as O

PROPS = ["Props/C13", "Props/C13_Xyz", "Props/C13_Pdffit", "Props/C13_Discus", "Props/C13_Xcfg", "Props/C13_Pdb", "Props/C13_Cif",
         "Props/C13_Examples"] + ["Props/C13_Tie_" + f.capitalize() for f in ("xyz", "rawxyz", "pdffit", "discus", "pdb", "xcfg", "cif")]
TARGETS = [p + ".vo" for p in PROPS]
MODEL_FORMATS = ["xyz", "rawxyz", "pdffit", "discus", "xcfg", "pdb"]

# kinds each CIF oracle of Model/C13_Cif.v is declared to raise (hypotheses of C13_only_documented_cif_partial)
CIF_DECLARED = {
    "read_cif": {"StarError", "YappsSyntaxError", "ValueError", "UnicodeError"},
    "lattice": {"KeyError", "ValueError", "ZeroDivisionError"},
    "atom_sites": {"KeyError", "ValueError", "IndexError"},
    "aniso_sites": {"KeyError", "ValueError", "IndexError"},
    "symops": {"KeyError", "ValueError", "IndexError", "ZeroDivisionError", "FormatError", "LinAlgError"},
}
CIF_ORACLE_OF = {"_parse_lattice": "lattice", "_parse_atom_site_label": "atom_sites",
                 "_parse_atom_site_aniso_label": "aniso_sites", "_parse_space_group_symop_operation_xyz": "symops"}

_runner = None


def _get_runner():
    global _runner
    if _runner is None:
        _runner = O.ModelRunner()
    return _runner


def work(task):
    """(tid, fmt, text, entries, do_model) -> (tid, {entry: outcome}, model result or None)"""
    tid, fmt, text, entries, do_model = task
    res = {}
    for en in entries:
        f = "auto" if en.startswith("auto:") else fmt
        res[en] = C.run_parser(f, text, en.split(":")[-1])
    mres = None
    if do_model:
        try:
            mres = _get_runner().run(fmt, text.rstrip("\r\n").split("\n"))
        except Exception as e:          # a broken pipe etc. is a harness problem, reported by the caller
            mres = ("protocol", "%s: %s" % (type(e).__name__, e))
            global _runner
            _runner = None
    return tid, res, mres


# ---------------------------------------------------------------------------------------------------
def build(ctx):
    with core.BuildLock():
        ok = ctx.regen("c13_exc", c13_exc.generate)
        if ok:
            ctx.coq(TARGETS, theorems_in=set(PROPS))
        # the extracted models embed the except clauses of Gen/C13_ExcSpec.v: rebuild the driver when anything changed
        drv_ok = False
        try:
            srcs = [os.path.join(core.GEN, "C13_ExcSpec.v"), os.path.join(core.VERIF, "ocaml", "C13", "driver.ml"),
                    os.path.join(core.VERIF, "ocaml", "C13", "extract.v")]
            srcs += [os.path.join(core.COQ, "Model", f) for f in sorted(os.listdir(os.path.join(core.COQ, "Model")))
                     if f.startswith("C13_") and f.endswith(".v")]
            srcs.append(os.path.join(core.COQ, "Base", "C13_Exn.v"))
            h = hashlib.sha1(b"".join(open(f, "rb").read() for f in srcs)).hexdigest()
            stamp = os.path.join(core.VERIF, "ocaml", "C13", "_build", "stamp")
            have = open(stamp).read().strip() if os.path.exists(stamp) else ""
            if have != h or not os.path.exists(O.DRIVER):
                core.coq_make(["Model/C13_Xyz.vo", "Model/C13_Pdffit.vo", "Model/C13_Discus.vo", "Model/C13_Xcfg.vo",
                               "Model/C13_Pdb.vo"], timeout=600)
                rc, out = core.sh("timeout 600 bash build.sh", cwd=os.path.join(core.VERIF, "ocaml", "C13"), timeout=630)
                if rc == 0 and os.path.exists(O.DRIVER):
                    open(stamp, "w").write(h)
                    drv_ok = True
                else:
                    ctx.log("driver build failed:", out[-400:])
            else:
                drv_ok = True
        except Exception as e:
            ctx.log("driver build exception: %s" % e)
        ctx.obligation("build:ocaml/C13/c13_driver (extracted models)", drv_ok)
    return ok, drv_ok


def sites_detail(ctx):
    """Human-readable difference between the regenerated site layout and the one the models account for."""
    try:
        sp = c13_exc.spec()
    except (core.TranslatorRefusal, SyntaxError):
        return
    txt = open(os.path.join(core.COQ, "Model", "C13_Sites.v")).read()
    for fmt in c13_exc.FORMATS:
        m = re.search(r"Definition %s_sites_expected : list site := \[(.*?)\n\]\." % fmt, txt, re.S)
        exp = set(re.sub(r"\s+", " ", x.strip()) for x in m.group(1).split(";\n")) if m else set()
        cur = set('("%s", "%s", [%s], %d)' % (f, c, "; ".join(str(x) for x in ch), n) for f, c, ch, n in sp[fmt]["sites"])
        if cur != exp:
            ctx.notes.append("site layout of p_%s.py changed: now %s ; models were written for %s" %
                             (fmt, sorted(cur - exp)[:6], sorted(exp - cur)[:6]))
            ctx.log("site layout of p_%s.py differs: +%s -%s" % (fmt, sorted(cur - exp)[:4], sorted(exp - cur)[:4]))


def hierarchy_check(ctx):
    """Base/C13_Exn.v `parent` vs the live classes."""
    import numpy.linalg
    from CifFile import StarError
    from CifFile.yapps3_compiled_rt import YappsSyntaxError
    from diffpy.structure.structureerrors import LatticeError, StructureFormatError, SymmetryError
    live = {"ValueError": ValueError, "IndexError": IndexError, "KeyError": KeyError, "TypeError": TypeError,
            "StopIteration": StopIteration, "ZeroDivisionError": ZeroDivisionError, "OverflowError": OverflowError,
            "UnboundLocalError": UnboundLocalError, "NameError": NameError, "AttributeError": AttributeError,
            "SyntaxError": SyntaxError, "AssertionError": AssertionError, "RecursionError": RecursionError,
            "MemoryError": MemoryError, "UnicodeError": UnicodeError, "LinAlgError": numpy.linalg.LinAlgError,
            "LatticeError": LatticeError, "SymmetryError": SymmetryError, "StarError": StarError,
            "YappsSyntaxError": YappsSyntaxError, "FormatError": StructureFormatError, "NotImplemented": NotImplementedError,
            "LookupError": LookupError, "ArithmeticError": ArithmeticError, "RuntimeError": RuntimeError, "OSError": OSError,
            "ExceptionK": Exception}
    src = open(os.path.join(core.COQ, "Base", "C13_Exn.v")).read()
    m = re.search(r"Definition parent \(k : kind\) : option kind :=\s*match k with(.*?)end\.", src, re.S)
    table, default = {}, None
    for line in m.group(1).split("\n"):
        mm = re.match(r"\s*\|\s*(.*?)\s*=>\s*(None|Some (\w+))", line)
        if not mm:
            continue
        tgt = mm.group(3)
        for nm in [x.strip() for x in mm.group(1).split("|")]:
            if nm == "_":
                default = tgt
            else:
                table[nm] = tgt
    bad = []
    for nm, cls in live.items():
        par = table.get(nm, default) if nm in table or nm != "ExceptionK" else None
        if nm == "ExceptionK":
            continue
        # nearest ancestor that is itself a kind
        anc = next((k for c in cls.__mro__[1:] for k, v in live.items() if v is c), None)
        if anc != par:
            bad.append("%s: model parent %s, live nearest base %s" % (nm, par, anc))
        ctx.count(("hierarchy", nm))
    ctx.obligation("correspondence:exception-hierarchy-vs-live-classes", not bad, "; ".join(bad))


ADV_FLOATS = [0.0, -0.0, 1.0, -1.0, 1e-320, 1e-200, 1e-8, 3.5, 90.0, 120.0, 180.0, 200.0, 360.0, 1e200, 1e308,
              float("inf"), float("-inf"), float("nan"), 89.99999999, 1e-12]


def primitive_kinds_check(ctx, tokens):
    """Differential test of the declared exception kinds of every oracle on the live primitives."""
    import warnings
    import numpy
    from diffpy.structure import Atom, Lattice, Structure
    from diffpy.structure.parsers.p_xcfg import _assign_auxiliaries
    rng = ctx.rng
    bad = []
    n = 0

    def kinds_of(fn, declared, what, args):
        nonlocal n
        n += 1
        try:
            with warnings.catch_warnings():
                warnings.simplefilter("ignore")
                fn(*args)
        except Exception as e:
            k = O.kind_of_exception(e)
            if k not in declared and not (k == "LinAlgError" and "ValueError" in declared) \
                    and not (k == "UnicodeError" and "ValueError" in declared):
                bad.append("%s%r raised %s (declared %s)" % (what, tuple(args)[:7], k, sorted(declared)))

    adv_tokens = ["", " ", "nan", "NaN", "-inf", "Infinity", "1_0", "1__0", "_1", "1e5", "1e999", "-1e-999", "0x10", "1,5", "1.5.2",
                  "١٢", "1\x00", "+", "-", ".", "1.", ".5", "1e", "e1", "9" * 5000, " 12 ", "\t3\n", "1d5", "1/2", "(1)",
                  "1L", "0o7", "1j", "--1", "+-1", "١.٥"] + list(tokens)
    for t in adv_tokens:
        kinds_of(float, {"ValueError"}, "float", [t])
        kinds_of(int, {"ValueError"}, "int", [t])
        if any(x == "" for x in t.split()) or any(x == "" for x in t.replace(",", " ").split()):
            bad.append("str.split() produced an empty token on %r" % t)
    # Lattice( *pars) with 0..6 parameters
    for _ in range(1500):
        k = rng.choice([0, 1, 3, 5, 6, 6, 6, 6])
        pars = [rng.choice(ADV_FLOATS) for _ in range(k)]
        kinds_of(Lattice, {"ValueError", "ZeroDivisionError"}, "Lattice", pars)
        if k:
            kinds_of(Structure().lattice.setLatPar, {"ValueError", "ZeroDivisionError"}, "setLatPar", pars)
    # float * int
    for v in ADV_FLOATS:
        for z in (0, 1, -1, 10 ** 20, 10 ** 400, -10 ** 400):
            kinds_of(lambda a, b: a * b, {"OverflowError"}, "mul", [v, z])
    # setLatBase
    for _ in range(1500):
        H = numpy.array([[rng.choice(ADV_FLOATS + [1.0, 2.0, 0.0, 0.0]) for _ in range(3)] for _ in range(3)])
        kinds_of(Structure().lattice.setLatBase, {"LatticeError", "ValueError", "ZeroDivisionError"}, "setLatBase", [H])
    # SCALE3 composite
    def scale3(sc):
        st = Structure()
        base = numpy.transpose(numpy.linalg.inv(sc))
        cryst = numpy.array(st.lattice.abcABG())
        st.lattice.setLatBase(base)
        numpy.fabs(1.0 - numpy.array(st.lattice.abcABG()) / cryst)
    for _ in range(1500):
        sc = numpy.array([[rng.choice(ADV_FLOATS + [1.0, 0.1, 0.0, 0.0]) for _ in range(3)] for _ in range(3)])
        kinds_of(scale3, {"LinAlgError", "ValueError", "LatticeError", "ZeroDivisionError"}, "scale3", [sc])
    # numpy row assignment: the model computes it (length 1 or 3)
    for k in range(0, 6):
        vals = [1.0] * k
        try:
            numpy.zeros((3, 3))[0, :] = vals
            okk = True
        except ValueError:
            okk = False
        n += 1
        if okk != (k in (1, 3)):
            bad.append("row assignment of %d values: numpy %s, model %s" % (k, okk, k in (1, 3)))
        st = Structure()
        st.addNewAtom("C")
        kinds_of(lambda v: setattr(st.getLastAtom(), "xyz_cartn", v), {"ValueError"}, "xyz_cartn=", [vals])
        kinds_of(lambda v: numpy.dot(numpy.identity(3), v), {"ValueError"}, "dot", [vals])
    # numpy index into an axis of 3: the model computes it (-3..2)
    for i in range(-7, 8):
        try:
            numpy.zeros((3, 3))[i, 0] = 1.0
            okk = True
        except IndexError:
            okk = False
        n += 1
        if okk != (-3 <= i <= 2):
            bad.append("numpy index %d: numpy %s, model %s" % (i, okk, -3 <= i <= 2))
    # auxiliary property names
    names = sorted(set(dir(Atom("C"))) | set(dir(object)) | {"__dict__", "__weakref__", "__slots__", "__class__", "lattice", "xyz",
                   "U", "B", "U1", "U11", "U12", "U21", "U123", "U14", "Uiso", "Biso", "B11", "Uisoequiv", "occupancy", "kine", "pote",
                   "s11", "v", "x", "_U", "foo", "a.b", "1x", "Ü", "element", "label", "anisotropy", "xyz_cartn", "aux0"})
    for nm in names:
        def one(nm=nm):
            st = Structure()
            st.addNewAtom("C", xyz=[0.1, 0.2, 0.3])
            _assign_auxiliaries(st[-1], [0.1, 0.2, 0.3, 0.25], auxiliaries={0: nm}, no_velocity=True)
        kinds_of(one, {"IndexError", "FormatError"}, "aux_assign", [])
        if bad and bad[-1].startswith("aux_assign()"):
            bad[-1] = "aux_assign(%r)" % nm + bad[-1][len("aux_assign()"):]
    # addNewAtom with three floats never raises
    for _ in range(300):
        st = Structure()
        kinds_of(lambda e, xyz: st.addNewAtom(e, xyz=xyz), set(), "addNewAtom",
                 [rng.choice(["", "C", "Xx", "12", "#"]), [rng.choice(ADV_FLOATS) for _ in range(3)]])
    ctx.count(n=n)
    ctx.count(("primitive-kinds", len(adv_tokens)))
    ctx.obligation("correspondence:declared-oracle-kinds-vs-live-primitives", not bad, "; ".join(bad[:6]))
    return n


def read_cif_kinds_check(ctx, texts):
    """PyCifRW as an oracle: kinds raised by CifFile(...) itself on corrupted CIF texts."""
    import contextlib
    from CifFile import CifFile
    bad, n = [], 0
    for t in texts:
        n += 1
        try:
            with contextlib.redirect_stdout(io.StringIO()):
                CifFile(io.StringIO(t), grammar="auto")
        except Exception as e:
            k = O.kind_of_exception(e)
            if k not in CIF_DECLARED["read_cif"]:
                bad.append("CifFile raised %s: %s on %r" % (type(e).__name__, str(e)[:60], t[:80]))
    ctx.count(n=n)
    ctx.obligation("correspondence:PyCifRW-kinds-within-declared", not bad, "; ".join(bad[:4]))


# ---------------------------------------------------------------------------------------------------
def cif_nonscalar(text):
    """True when the CIF (as PyCifRW reads it) gives a list where P_cif expects one value."""
    import contextlib
    from CifFile import CifFile
    scalars = ["_cell_length_a", "_cell_length_b", "_cell_length_c", "_cell_angle_alpha", "_cell_angle_beta", "_cell_angle_gamma",
               "_space_group_name_Hall", "_symmetry_space_group_name_Hall", "_space_group_name_H-M_alt", "_space_group_name_H-M_ref",
               "_symmetry_space_group_name_H-M", "_space_group_IT_number", "_symmetry_Int_Tables_number",
               "_space_group_crystal_system", "_symmetry_cell_setting"]
    try:
        with contextlib.redirect_stdout(io.StringIO()):
            cf = CifFile(io.StringIO(text), grammar="auto")
        for bn in cf.keys():
            b = cf[bn]
            for nm in scalars:
                if nm in b and not isinstance(b[nm], str):
                    return True
            for nm in b.keys():
                v = b[nm]
                if isinstance(v, list) and any(not isinstance(x, str) for x in v):
                    return True
    except Exception:
        return False
    return False


def violation_key(fmt, text, out):
    exc = out["kind"].split(":", 1)[1].split(".")[-1]
    parts = out["site"].split(":")
    func = parts[1] if len(parts) > 1 else "?"
    chain = parts[3] if len(parts) > 3 else ""
    if "getSymOp" in chain.split(">"):
        func = "getSymOp"
    elif chain and (chain.startswith("parse") and "_parseCifDataSource" in chain) and exc in ("AttributeError", "TypeError") \
            and cif_nonscalar(text):
        return "%s:nonscalar-item:%s" % (fmt, exc)
    return "%s:%s:%s" % (fmt, func, exc)


def explained(fmt_tables, out):
    """An escaping exception must come from a raising site the translator lists, under try-blocks that do not catch it."""
    import builtins
    parts = out["site"].split(":")
    if len(parts) < 3:
        return False
    fname, func, line = parts[0], parts[1], int(parts[2])
    m = re.match(r"p_(\w+)\.py", fname)
    if not m or m.group(1) not in fmt_tables:
        return False
    sites = fmt_tables[m.group(1)].get((func, line), [])
    exc = out["kind"].split(":", 1)[1].split(".")[-1]
    for cls, chains in sites:
        if not any(exc in caught or (exc in ("IndexError", "KeyError") and "LookupError" in caught) or "Exception" in caught
                   for caught in chains):
            return True
    return False


def gen_tasks(ctx, docs, quick):
    rng = ctx.rng
    per_fmt = {}
    for fmt, name, text in docs:
        per_fmt.setdefault(fmt, []).append((name, text))
    tasks = []
    budget = 850
    for fmt, dl in per_fmt.items():
        for name, text in dl:
            faults = list(C.all_single_faults(fmt, text))
            k = max(20, budget // len(dl)) if quick else (5000 if fmt == "cif" else 20000)
            if name.startswith("tiny"):
                pass        # tiny documents: every single fault (they are the ones that keep cross-record checks consistent)
            elif len(faults) > k:
                # deletions of single header lines are always tried (a missing record is the classic way into parser internals)
                must = [f for f in faults if f[0].startswith("del_line:") and int(f[0].split(":")[1]) < 16]
                rest = [f for f in faults if f not in must]
                faults = must + rng.sample(rest, max(0, min(len(rest), k - len(must))))
            faults.insert(0, ("valid", text))
            for d, t in faults:
                tasks.append([(fmt, name, d), fmt, t])
        L = [ln for _, text in dl for ln in text.split("\n")]
        ns = 60 if quick else 3000
        for k in range(ns):
            tasks.append([(fmt, "soup", "token:%d" % k), fmt, C.token_soup(fmt, rng)])
            tasks.append([(fmt, "soup", "records:%d" % k), fmt, C.structured_soup(fmt, rng, L)])
    # micro documents (every text of <= 2 lines over a small alphabet) for every parser, and operation-loop faults of a
    # CIF with a non-tabulated group: always complete, they are cheap and reach the corners sampling misses
    micro = C.micro_documents()
    for fmt in C.FORMATS:
        for nm, t in micro:
            tasks.append([(fmt, "micro", nm), fmt, t])
    tasks.append([("cif", "tiny-customsg.cif", "valid"), "cif", C.CUSTOM_SYMOP_CIF])
    for d, t in C.symop_faults():
        tasks.append([("cif", "tiny-customsg.cif", d), "cif", t])
    for d, t in C.all_single_faults("cif", C.CUSTOM_SYMOP_CIF):
        tasks.append([("cif", "tiny-customsg.cif", d), "cif", t])
    out = []
    for i, (tid, fmt, text) in enumerate(tasks):
        entries = ["parse"]
        if (tid[1] == "micro" and fmt == "xyz") or tid[2].startswith("symop_"):
            entries.append("auto:parse")
        if not quick or i % 4 == 1:
            entries.append("parseLines")
        if i % 4 == 2 or (not quick and i % 2 == 0):
            entries.append("parseFile")
        if i % (8 if quick else 16) == 3 and "auto:parse" not in entries:
            entries.append("auto:parse")
        try:
            text.encode("utf-8")
        except UnicodeEncodeError:
            entries = [e for e in entries if not e.endswith("parseFile")]
        do_model = fmt in MODEL_FORMATS and O.model_safe(fmt, text) and (quick or fmt != "xcfg" or i % 3 == 0)
        out.append((tid, fmt, text, entries, do_model))
    return out


def run(ctx):
    ctx.trusted += [
        "Coq 8.16.1 kernel + vm_compute (no native_compute); theorems closed under the global context (no axioms)",
        "translate/c13_exc.py (fail-closed ast translator: except clauses, handler classes, raising-site layout, pdb record table)",
        "hand-written models coq/Model/C13_*.v, tied by (T) the clauses/layout and (C) execution against the real parsers",
        "declared exception kinds of the oracles (str.split/strip, float, int, Lattice, setLatPar, setLatBase, numpy.linalg.inv, "
        "numpy row/index assignment, _assign_auxiliaries, PyCifRW CifFile, float*int) - tested differentially on the live primitives each run",
        "extraction: ExtrOcamlBasic + ExtrOcamlString; nat/Z/positive stay extracted inductives; ocaml/C13/driver.ml and "
        "vlib/c13_oracles.py (line protocol, hex strings, value handles) are trusted glue",
    ]
    ctx.assumptions += [
        "helper methods of a parser run only from parseLines of a fresh parser object (instance attributes initialised)",
        "'%d' % line-number formatting of the error messages does not raise; Structure.addNewAtom / placeInLattice / "
        "isanisotropic on finite-shape float arrays do not raise (tested for addNewAtom)",
        "cif: PyCifRW and the block readers are oracles; the positive theorem is partial (scalar item values) - the excluded "
        "class (a list where one value is expected) is refuted and listed as a finding",
        "a parser returning None (cif text without _atom_site_label) is counted, not judged: Structure.read handles it explicitly",
        "memory/time exhaustion (e.g. auxiliary[99999999999]) is outside the property; runs are cut off after 20 s and counted",
    ]
    quick = ctx.tier == "quick"
    ok, drv_ok = build(ctx)
    sites_detail(ctx)
    hierarchy_check(ctx)

    docs = C.valid_documents(ctx.rng, ctx.tier)
    tasks = gen_tasks(ctx, docs, quick)
    ctx.log("documents %d, corruption tasks %d" % (len(docs), len(tasks)))
    try:
        tables = {fmt: c13_exc.site_table(fmt) for fmt in c13_exc.FORMATS}
    except (core.TranslatorRefusal, SyntaxError):
        tables = {}

    texts = {t[0]: t[2] for t in tasks}
    stats = {}
    seen = {}
    mism = []
    unexplained = []
    cif_kind_bad = []
    n_model = 0
    n_runs = 0
    timeouts = 0
    nones = 0
    tok_sample = set()
    cif_texts = []
    t0 = time.time()
    with C.pool() as pool:
        for tid, res, mres in pool.imap_unordered(work, [t if drv_ok else t[:4] + (False,) for t in tasks], chunksize=4):
            fmt = tid[0]
            text = texts[tid]
            opclass = tid[2].split(":")[0]
            for en, o in res.items():
                n_runs += 1
                kind = o["kind"]
                f = "auto" if en.startswith("auto:") else fmt
                stats[(f, kind.split(":")[0] if not kind.startswith("escape") else kind)] = \
                    stats.get((f, kind.split(":")[0] if not kind.startswith("escape") else kind), 0) + 1
                ctx.count((f, opclass, kind, en))
                if kind == "timeout":
                    timeouts += 1
                    continue
                if o.get("none"):
                    nones += 1
                if kind.startswith("escape:"):
                    key = violation_key(f, text, o)
                    seen.setdefault(key, []).append((tid, en, o))
                    if fmt in tables and not explained(tables, o) \
                            and not any(re.search(kf["match"], key) for kf in ctx.known):
                        unexplained.append((tid, en, o["kind"], o["site"]))
                # CIF oracles: kinds that were translated or escaped, by block reader
                if fmt == "cif" and en != "auto:parse":
                    orig, chain = None, ""
                    if kind.startswith("escape:"):
                        orig, chain = kind.split(":", 1)[1].split(".")[-1], o["site"].split(":")[-1]
                    elif "<-" in o.get("raised_at", ""):
                        ctxp = o["raised_at"].split("<-", 1)[1].split("@")
                        orig, chain = ctxp[0].split(".")[-1], ctxp[-1]
                    if orig:
                        fns = chain.split(">")
                        orc = next((CIF_ORACLE_OF[x] for x in fns if x in CIF_ORACLE_OF), None)
                        if orc is None and fns and fns[-1] == "_parseCifDataSource":
                            orc = "read_cif"
                        if orc and orig not in CIF_DECLARED[orc] and not kind.startswith("escape:"):
                            cif_kind_bad.append("%s translated %s (declared %s)" % (orc, orig, sorted(CIF_DECLARED[orc])))
            if mres is not None:
                n_model += 1
                o = res.get("parseLines") or res["parse"]
                if o["kind"] != "timeout":
                    ik = O.kind_of_outcome(o["kind"])
                    same = (mres[0] == "ok" and ik == "ok" and mres[1] == o["natoms"]) or (mres[0] == "raise" and mres[1] == ik)
                    if not same:
                        mism.append((tid, mres, ik, o.get("natoms"), o.get("site")))
            if len(tok_sample) < 4000:
                tok_sample.update(text.split()[:40])
            if fmt == "cif" and len(cif_texts) < (150 if quick else 1500):
                cif_texts.append(text)
    ctx.log("ran %d parser calls, %d model executions in %.1fs" % (n_runs, n_model, time.time() - t0))

    # ---- verdicts ----------------------------------------------------------------------------------
    for key, hits in sorted(seen.items()):
        tid, en, o = hits[0]
        f = "auto" if en.startswith("auto:") else tid[0]
        ctx.violation("%s parser: %s escapes %s() at %s on a corrupted document (%s of %s); %d such cases" %
                      (f, o["kind"].split(":", 1)[1], en.split(":")[-1], o["site"].rsplit(":", 1)[0], tid[2], tid[1], len(hits)),
                      {"format": f, "entry": en.split(":")[-1], "text": texts[tid], "exception": o["kind"], "site": o["site"],
                       "message": o.get("msg", ""), "corruption": list(tid)}, key=key)
    ctx.obligation("correspondence:model-outcome-equals-parser-outcome", not mism,
                   "; ".join("%s: model %s, parser %s/%s at %s" % (m[0], m[1], m[2], m[3], m[4]) for m in mism[:4]))
    ctx.obligation("correspondence:escapes-explained-by-translated-sites", not unexplained,
                   "; ".join("%s %s %s at %s" % u for u in unexplained[:4]))
    ctx.obligation("correspondence:cif-block-oracle-kinds-within-declared", not cif_kind_bad, "; ".join(sorted(set(cif_kind_bad))[:4]))
    primitive_kinds_check(ctx, sorted(tok_sample))
    read_cif_kinds_check(ctx, cif_texts)
    if not drv_ok:
        ctx.obligation("correspondence:model-outcome-equals-parser-outcome", False, "model driver unavailable")

    for m in mism[:3]:
        ctx.sample({"mismatch": str(m[0]), "model": str(m[1]), "parser": str(m[2])})
    shown = 0
    for (tid, fmt, text, entries, dm) in tasks:
        if shown < 5 and tid[2] not in ("valid",) and len(text) < 300:
            ctx.sample({"format": fmt, "document": tid[1], "corruption": tid[2], "text": text})
            shown += 1
    ctx.coverage.update({
        "rule": "every single-fault corruption (truncate at each line/token, delete/duplicate/swap/move records, replace each token by "
                "empty/word/0/negative/huge/1e308/nan/inf/1e999/10^400/sign flip, free and column-preserving) of test-data documents and "
                "of documents written by the library's 7 writers, plus token soup and record soup; quick tier samples them. "
                "A case is distinct by (format, corruption class, outcome kind, entry point).",
        "parser_calls": n_runs, "model_executions": n_model, "model_mismatches": len(mism), "timeouts": timeouts,
        "returned_none": nones, "documents": len(docs), "corruptions": len(tasks),
        "outcomes": {"%s:%s" % k: v for k, v in sorted(stats.items())},
        "escape_keys": {k: len(v) for k, v in seen.items()},
        "exhaustive": False,
    })


def replay(ctx, case):
    c = case.get("case", case)
    o = C.run_parser(c["format"], c["text"], c.get("entry", "parse"))
    ctx.count(("replay", o["kind"]))
    ctx.count(("replay", "ran"))
    ctx.log("replay: %s.%s -> %s %s" % (c["format"], c.get("entry", "parse"), o["kind"], o.get("msg", "")[:100]))
    if o["kind"].startswith("escape:"):
        ctx.violation("replayed: %s escapes the %s parser" % (o["kind"].split(":", 1)[1], c["format"]),
                      dict(c), key=violation_key(c["format"], c["text"], o))
    ctx.obligation("replay-executed", True)
