"""C07 - reading a CIF yields the full cell, independent of how the CIF says it.

Proof part : Props/C07.v (model Model/C07_CifRead.v composed of generated / shared parts, see design.d/C07.md).
Tie        : (T) translate/c07_cif.py regenerates Gen/C07_CifSpec.v (setter table, translators, BtoU, variants) from
             p_cif.py; sgtables / lookupspec / c09_atom regenerate the parts shared with C03, C11, C09;
             (C) the harness writes CIF texts and hands the same content, as an abstract block, to the model
             (exact rationals, evaluated by the Coq kernel); everything the parser returns is compared.
Finder     : independent of the model: the parsed structure against the exact-fraction orbit oracle (vlib/c02_orbit),
             unique labels, tabulated setting, and pairwise identity of all equivalent spellings of one crystal;
             plus directed probes outside the commuting subset of column orders and for label clashes.
"""
import json
import os
import random
from concurrent.futures import ProcessPoolExecutor, ThreadPoolExecutor
from fractions import Fraction as F

from translate import sgtables, lookupspec, c09_atom, c07_cif
from vlib import core, c02_orbit, c07_gen as g

TARGETS = ["Model/C07_Pre.vo", "Props/C07.vo"]
NSHARD = 16
ALL_STYLES = list(range(9))
EXACT_STYLES = [0, 1, 3, 4, 5, 6, 7]        # without the truncated decimals 0.333333 / 0.33333


# --------------------------------------------------------------------------------------------- generation
def norm_name(x):
    return x.replace(" ", "").lower()


def unique_names():
    """Which settings own their short / full symbol (no other setting carries it, modulo case and blanks)."""
    from diffpy.structure.spacegroups import SpaceGroupList
    cnt = {}
    for sg in SpaceGroupList:
        for k in {norm_name(sg.short_name), norm_name(sg.pdb_name)}:
            cnt[k] = cnt.get(k, 0) + 1
    return [(cnt[norm_name(sg.short_name)] == 1, cnt[norm_name(sg.pdb_name)] == 1) for sg in SpaceGroupList]


def make_crystal(si, ops, rng, thorough=False):
    cell = g.cell_for(ops)
    if cell is None:
        return None
    zero = (F(0),) * 3
    strata = c02_orbit.discover(ops, rng) if thorough else c02_orbit.grid_strata(ops, rng)
    cands = [("general", (0,), c02_orbit.rand_general(rng, 4))]
    keys = sorted(strata.keys())
    rng.shuffle(keys)
    for st in keys[: (4 if thorough else 2)]:
        cands.append(("special", st, strata[st]))
    if rng.random() < 0.5:
        cands.append(("general", (0,), c02_orbit.rand_general(rng, 4)))
    rng.shuffle(cands)
    sites = []
    symbols = ["C", "O2-", "Na1+", "Fe3+", "N", "Si", "Cl1-", "H"]
    for kind, st, x in cands:
        x = tuple(F(v) for v in x)
        if any((v * g.GRID).denominator != 1 for v in x):
            continue
        case = c02_orbit.make_case(si, "exact", x, zero, x, st)
        an = c02_orbit.analyse(ops, case)
        if not an["judged"] or an["fragile"]:
            continue                       # images too close to the tolerance: the expansion itself is C02's subject
        stab = c02_orbit.stabiliser(ops, zero, x)
        sym = rng.choice(symbols)
        lab = "%s%d" % ("".join(ch for ch in sym if ch.isalpha()), len(sites) + 1)
        r = rng.random()
        if r < 0.45:
            adp = ("ani", g.allowed_tensor(ops, stab, rng))
        elif r < 0.85:
            adp = ("iso", F(rng.randrange(20, 900), 10000))
        else:
            adp = None
        occ = F(rng.choice([10000, 10000, 5000, 2500, 7531, 3333]), 10000)
        sites.append({"label": lab, "symbol": sym, "x": x, "occ": occ, "adp": adp, "stab": list(stab), "kind": kind})
    if not sites:
        return None
    return {"si": si, "cell": cell, "sites": sites, "adp_type_column": rng.random() < 0.6}


def spellings(crystal, sg_meta, rng, full, nrand=1):
    """[(name, spelling dict, relation to the base)] ; relation: 'same' | 'shuffled'"""
    nops = sg_meta["nops"]
    nsite_cols = 2 + 3 + (1 if any(s["adp"] is not None for s in crystal["sites"]) else 0) + (1 if crystal["adp_type_column"] else 0) + 1
    has_ani = any(s["adp"] is not None and s["adp"][0] == "ani" for s in crystal["sites"])
    out = []

    def perm(n):
        p = list(range(n))
        rng.shuffle(p)
        return p
    pool = []
    for k in range(1, 9):
        pool.append(("op-style-%d" % k, {"op_style": k}, "same"))
    order = perm(nops)
    # a list in another order than the table's is used literally by the parser, so only exact spellings are shuffled
    pool.append(("op-shuffled", {"op_order": order, "op_style": rng.choice(EXACT_STYLES)}, "shuffled"))
    pool.append(("op-item", {"op_item": 0}, "same"))
    pool.append(("number", {"sym": "number", "num_text": str(sg_meta["number"]), "num_item": rng.randrange(2)}, "same"))
    if sg_meta["short_unique"]:
        pool.append(("hm-short", {"sym": "hm", "hm_text": sg_meta["short"], "hm_item": rng.randrange(3)}, "same"))
    if sg_meta["pdb_unique"]:
        pool.append(("hm-full", {"sym": "hm", "hm_text": sg_meta["pdb"], "hm_item": rng.randrange(3)}, "same"))
    pool.append(("ops+number", {"sym": "ops+number", "num_text": str(sg_meta["number"]), "op_style": rng.choice(ALL_STYLES)}, "same"))
    pool.append(("B-iso", {"ub_iso": "B"}, "same"))
    if has_ani:
        pool.append(("B-aniso", {"ub_aniso": "B"}, "same"))
        pool.append(("B-both", {"ub_iso": "B", "ub_aniso": "B"}, "same"))
        pool.append(("aniso-perm", {"aniso_perm": perm(7)}, "same"))
        pool.append(("aniso-first", {"aniso_first": True}, "same"))
    pool.append(("cartn", {"coords": "cartn"}, "same"))
    pool.append(("esd", {"esd": True}, "same"))
    pool.append(("site-perm", {"site_perm": perm(nsite_cols)}, "same"))
    pool.append(("sym-last", {"sym_last": True, "cell_last": rng.random() < 0.5}, "same"))
    pool.append(("name-case", {"name_case": True}, "same"))
    pool.append(("extra-cols", {"extra_cols": True}, "same"))
    if crystal["adp_type_column"]:
        pool.append(("thermal-name", {"thermal_name": True}, "same"))
    combo = {"op_style": rng.choice(ALL_STYLES), "esd": True, "site_perm": perm(nsite_cols), "ub_iso": rng.choice("UB"), "name_case": rng.random() < 0.5,
             "coords": rng.choice(["fract", "cartn"]), "sym_last": rng.random() < 0.5}
    if has_ani:
        combo.update({"aniso_perm": perm(7), "ub_aniso": rng.choice("UB"), "aniso_first": rng.random() < 0.5})
    pool.append(("combo", combo, "same"))
    if full:
        return pool
    return [pool[rng.randrange(len(pool))] for _ in range(nrand)]


# --------------------------------------------------------------------------------------------- comparison
def cmp_atoms(A, B, tolp=g.TOL_POS, tolu=g.TOL_U, with_flag=True):
    """First difference between two atom lists (dicts with label, element, pos, occ, aniso, U) or None."""
    if len(A) != len(B):
        return "number of atoms %d vs %d" % (len(A), len(B))
    for i, (a, b) in enumerate(zip(A, B)):
        if a["label"] != b["label"]:
            return "atom %d label %r vs %r" % (i, a["label"], b["label"])
        if a["element"] != b["element"]:
            return "atom %d (%s) element %r vs %r" % (i, a["label"], a["element"], b["element"])
        if g.pdist(a["pos"], b["pos"]) > tolp:
            return "atom %d (%s) position %s vs %s" % (i, a["label"], [float(v) for v in a["pos"]], [float(v) for v in b["pos"]])
        if abs(float(a["occ"]) - float(b["occ"])) > 1e-9:
            return "atom %d (%s) occupancy %s vs %s" % (i, a["label"], float(a["occ"]), float(b["occ"]))
        if with_flag and a["aniso"] != b["aniso"]:
            return "atom %d (%s) anisotropy flag %s vs %s" % (i, a["label"], a["aniso"], b["aniso"])
        if g.udiff(a["U"], b["U"]) > tolu:
            return "atom %d (%s) tensor %s vs %s" % (i, a["label"], [[float(v) for v in r] for r in a["U"]], [[float(v) for v in r] for r in b["U"]])
    return None


def canon_sites(atoms, sizes):
    """Atoms grouped per site (block sizes), each block sorted by position: comparison modulo the order inside an orbit."""
    def r5(v):
        return round(float(v) % 1.0, 5) % 1.0
    out, i = [], 0
    for n in sizes:
        blk = atoms[i:i + n]
        i += n
        out.append(sorted((tuple(r5(v) for v in a["pos"]), a["element"], round(float(a["occ"]), 9),
                           tuple(round(float(v), 7) for r in a["U"] for v in r)) for a in blk))
    return out


def judge_oracle(crystal, ops, order, impl, L):
    """Property text against the exact oracle.  -> [(clause, message)]"""
    bad = []
    exp = g.expected(crystal, ops, order)
    at = impl["atoms"]
    labels = [a["label"] for a in at]
    if len(set(labels)) != len(labels):
        dup = sorted(set(x for x in labels if labels.count(x) > 1))
        bad.append(("labels-unique", "labels occur twice: %s" % dup[:4]))
    if len(at) != len(exp):
        bad.append(("union-of-orbits", "%d atoms, the union of the exact orbits has %d" % (len(at), len(exp))))
        return bad
    iu = L["isotropicunit"]
    for i, (a, e) in enumerate(zip(at, exp)):
        if g.pdist(a["pos"], e["pos"]) > g.TOL_POS:
            bad.append(("position", "atom %d (%s): %s is not image %s of site %s" % (i, a["label"], a["pos"], [float(v) for v in e["pos"]], e["site"])))
        if any(not (0.0 <= c < 1.0) for c in a["pos"]):
            bad.append(("in-cell", "atom %d (%s) at %s" % (i, a["label"], a["pos"])))
        if a["label"] != e["label"] and order is None:
            bad.append(("label", "atom %d label %r, expected %r" % (i, a["label"], e["label"])))
        if a["element"] != e["element"]:
            bad.append(("element", "atom %d (%s): element %r, parent has %r" % (i, a["label"], a["element"], e["element"])))
        if abs(a["occ"] - float(e["occ"])) > 1e-9:
            bad.append(("occupancy", "atom %d (%s): occupancy %r, parent has %r" % (i, a["label"], a["occ"], float(e["occ"]))))
        if e["U"] is not None:
            if g.udiff(a["U"], e["U"]) > g.TOL_U:
                bad.append(("tensor", "atom %d (%s): U = %s, rotated parent tensor is %s" % (i, a["label"], a["U"], [[float(v) for v in r] for r in e["U"]])))
        elif e["Uiso"] is not None:
            want = [[float(e["Uiso"]) * iu[r][c] for c in range(3)] for r in range(3)]
            if abs(a["Uiso"] - float(e["Uiso"])) > g.TOL_U or g.udiff(a["U"], want) > g.TOL_U:
                bad.append(("tensor-iso", "atom %d (%s): Uiso %r / U %s, parent has Uiso %r" % (i, a["label"], a["Uiso"], a["U"], float(e["Uiso"]))))
        else:
            if g.udiff(a["U"], [[0.0] * 3] * 3) > g.TOL_U:
                bad.append(("tensor-none", "atom %d (%s): U = %s although the file gives no displacement" % (i, a["label"], a["U"])))
        if len(bad) > 6:
            break
    return bad


def ser_crystal(c):
    def fr(v):
        return "%d/%d" % (F(v).numerator, F(v).denominator)
    sites = []
    for s in c["sites"]:
        adp = None
        if s["adp"] is not None:
            adp = [s["adp"][0], fr(s["adp"][1]) if s["adp"][0] == "iso" else [[fr(v) for v in row] for row in s["adp"][1]]]
        sites.append({"label": s["label"], "symbol": s["symbol"], "x": [fr(v) for v in s["x"]], "occ": fr(s["occ"]), "adp": adp})
    return {"si": c["si"], "cell": list(c["cell"]), "sites": sites, "adp_type_column": c["adp_type_column"]}


def deser_crystal(d):
    sites = []
    for s in d["sites"]:
        adp = None
        if s["adp"] is not None:
            adp = (s["adp"][0], F(s["adp"][1]) if s["adp"][0] == "iso" else [[F(v) for v in row] for row in s["adp"][1]])
        sites.append({"label": s["label"], "symbol": s["symbol"], "x": tuple(F(v) for v in s["x"]), "occ": F(s["occ"]), "adp": adp})
    return {"si": d["si"], "cell": tuple(d["cell"]), "sites": sites, "adp_type_column": d["adp_type_column"]}


# --------------------------------------------------------------------------------------------- worker
def work_setting(args):
    """All CIFs of one setting: build, parse with the real code, judge against the oracle and across spellings."""
    si, seed, full, thorough, meta, nrand = args
    from diffpy.structure.spacegroups import SpaceGroupList
    rng = random.Random(seed)
    sg = SpaceGroupList[si]
    try:
        ops = c02_orbit.exact_ops(sg)
    except ValueError as e:
        return {"si": si, "skip": "operations not exact: %s" % e, "cases": []}
    ops12 = [(R, tuple(int(t * 12) for t in tt)) for R, tt in ops]
    if any(F(t12, 12) != t for (_, tt), (_, t12s) in zip(ops, ops12) for t, t12 in zip(tt, t12s)):
        return {"si": si, "skip": "a translation is not a multiple of 1/12", "cases": []}
    crystal = make_crystal(si, ops, rng, thorough)
    if crystal is None:
        return {"si": si, "skip": "no robust site / no invariant candidate cell", "cases": []}
    L = g.lattice(crystal["cell"])
    cases = []
    base_sp = {"sym": "ops", "op_style": 0, "op_item": 1}
    todo = [("base", base_sp, "same")] + spellings(crystal, meta, rng, full, nrand)
    base_impl = None
    base_text = None
    sizes = None
    scr = ser_crystal(crystal)
    for name, sp, rel in todo:
        spx = dict(base_sp)
        spx.update(sp)
        text, blk = g.build(crystal, ops12, spx, rng)
        impl = g.run_impl(text)
        order = spx.get("op_order") if "ops" in spx["sym"] else None
        rec = {"si": si, "name": name, "rel": rel, "text": text, "blk": blk, "impl": impl, "problems": [], "sp": {k: v for k, v in spx.items() if k not in ("op_order",)},
               "replay": {"crystal": scr, "op_order": order, "rel": rel, "base_cif": base_text}}
        if impl["status"] != "ok":
            rec["problems"].append(("parse", "the parser rejects the file: %s %s" % (impl["status"], impl.get("msg", ""))))
        else:
            rec["problems"] += judge_oracle(crystal, ops, order, impl, L)
            # the space group must be the tabulated setting
            if order is None or list(order) == list(range(len(ops))):
                if impl["sg_tab_index"] != si:
                    rec["problems"].append(("spacegroup", "parser.spacegroup is #%s (%s, table index %s), the file describes table entry %d = #%d %s" % (
                        impl["sg_number"], impl["sg_short"], impl["sg_tab_index"], si, sg.number, sg.short_name)))
            elif impl["sg_number"] != sg.number or impl["sg_nops"] != len(ops):
                rec["problems"].append(("spacegroup", "parser.spacegroup is #%s with %s operations, expected #%d" % (impl["sg_number"], impl["sg_nops"], sg.number)))
            if name == "base":
                base_impl = impl
                base_text = text
                exp = g.expected(crystal, ops)
                sizes = []
                for s in crystal["sites"]:
                    sizes.append(sum(1 for e in exp if e["site"] == s["label"]))
            elif base_impl is not None and base_impl["status"] == "ok":
                if rel == "same":
                    d = cmp_atoms(base_impl["atoms"], impl["atoms"])
                else:
                    d = None if canon_sites(base_impl["atoms"], sizes) == canon_sites(impl["atoms"], sizes) else "the sets of atoms per site differ"
                if d:
                    rec["problems"].append(("spelling", "spelling %s gives another structure than the base spelling: %s" % (name, d)))
        cases.append(rec)
    light = {"cell": crystal["cell"], "nsites": len(crystal["sites"]), "strata": [(s["kind"], len(s["stab"])) for s in crystal["sites"]],
             "adp": [s["adp"][0] if s["adp"] else "none" for s in crystal["sites"]]}
    return {"si": si, "skip": None, "cases": cases, "crystal": light}


# --------------------------------------------------------------------------------------------- directed probes
def probe_cifs(rng):
    """CIFs outside the commuting subset / label hypothesis: (kind, key, text A, text B or None, block A, block B)."""
    out = []

    def blk(cell, cols, acols=None, ops=None, hm=""):
        return {"cell": [("%.4f" % v) if i < 3 else ("%.2f" % v) for i, v in enumerate(cell)], "site": cols, "aniso": acols, "symop": None, "equivpos": ops,
                "hall": "", "hall_sym": "", "hm_alt": "", "hm_ref": "", "hm_sym": hm, "it_number": "", "int_tables": "", "cellnum": cell}

    def text(b):
        t = ["data_probe"] + ["%s %s" % (k, v) for k, v in zip(g.CELL_ITEMS, b["cell"])]
        if b["hm_sym"]:
            t.append("_symmetry_space_group_name_H-M '%s'" % b["hm_sym"])
        if b["equivpos"]:
            t += ["loop_", "_symmetry_equiv_pos_as_xyz"] + ["'%s'" % o for o in b["equivpos"]]
        t += ["loop_"] + [c[0] for c in b["site"]] + [" ".join(g.quote(c[1][r]) for c in b["site"]) for r in range(len(b["site"][0][1]))]
        if b["aniso"]:
            t += ["loop_"] + [c[0] for c in b["aniso"]] + [" ".join(g.quote(c[1][r]) for c in b["aniso"]) for r in range(len(b["aniso"][0][1]))]
        return "\n".join(t) + "\n"
    ortho = (5.13, 6.27, 7.41, 90.0, 90.0, 90.0)
    mono = (5.13, 6.27, 7.41, 90.0, 104.0, 90.0)
    # label clash: sites L and L_2 in a centrosymmetric triclinic cell
    for lab in ("C1", "Fe2", "O11"):
        cols = [("_atom_site_label", [lab, lab + "_2"]), ("_atom_site_fract_x", ["0.1%d" % rng.randrange(10, 90), "0.3%d" % rng.randrange(10, 90)]),
                ("_atom_site_fract_y", ["0.21", "0.11"]), ("_atom_site_fract_z", ["0.32", "0.23"])]
        b = blk(g.CANDIDATE_CELLS[0], cols, ops=["x,y,z", "-x,-y,-z"])
        out.append(("label-clash", "label-clash:site-label-equals-image-label", text(b), None, b, None))
    # merged loop: adp type before / after the anisotropic components
    base = [("_atom_site_label", ["C1"]), ("_atom_site_fract_x", ["0.1"]), ("_atom_site_fract_y", ["0.2"]), ("_atom_site_fract_z", ["0.3"])]
    comps = [("_atom_site_aniso_U_11", ["0.01"]), ("_atom_site_aniso_U_22", ["0.02"]), ("_atom_site_aniso_U_33", ["0.03"]),
             ("_atom_site_aniso_U_12", ["0.001"]), ("_atom_site_aniso_U_13", ["0.002"]), ("_atom_site_aniso_U_23", ["0.003"])]
    ty = [("_atom_site_adp_type", ["Uani"])]
    a, b2 = blk(ortho, base + ty + comps, hm="P 1"), blk(ortho, base + comps + ty, hm="P 1")
    out.append(("column-order", "column-order:merged-loop:adp_type-after-aniso-components", text(a), text(b2), a, b2))
    # both coordinate sets, consistent, interleaved, in a monoclinic cell
    L = g.lattice(mono)
    f = [0.1, 0.2, 0.3]
    import numpy
    c = numpy.array(f) @ L["base"]
    fc = [("_atom_site_fract_x", ["0.1"]), ("_atom_site_fract_y", ["0.2"]), ("_atom_site_fract_z", ["0.3"])]
    cc = [("_atom_site_cartn_x", ["%.10f" % c[0]]), ("_atom_site_cartn_y", ["%.10f" % c[1]]), ("_atom_site_cartn_z", ["%.10f" % c[2]])]
    lab = [("_atom_site_label", ["C1"])]
    a = blk(mono, lab + fc + cc, hm="P 1")
    b2 = blk(mono, lab + [fc[1], fc[2], cc[1], cc[2], fc[0], cc[0]], hm="P 1")
    out.append(("column-order", "column-order:fract-and-cartn-interleaved-oblique-cell", text(a), text(b2), a, b2))
    return out


REUSE_A = """data_a
_cell_length_a 5.13
_cell_length_b 6.27
_cell_length_c 7.41
_cell_angle_alpha 90
_cell_angle_beta 104
_cell_angle_gamma 90
_symmetry_space_group_name_H-M 'P 1 21/c 1'
loop_
_atom_site_label
_atom_site_fract_x
_atom_site_fract_y
_atom_site_fract_z
_atom_site_U_iso_or_equiv
_atom_site_adp_type
Fe1 0.11 0.23 0.37 0.012 Uiso
O1 0.31 0.43 0.17 0.015 Uiso
"""
REUSE_B = """data_b
_cell_length_a 5.13
_cell_length_b 6.27
_cell_length_c 7.41
_cell_angle_alpha 90
_cell_angle_beta 104
_cell_angle_gamma 90
_symmetry_space_group_name_H-M 'P 1 21/c 1'
loop_
_atom_site_label
_atom_site_fract_x
_atom_site_fract_y
_atom_site_fract_z
Fe1 0.11 0.23 0.37
O1 0.31 0.43 0.17
loop_
_atom_site_aniso_label
_atom_site_aniso_U_11
_atom_site_aniso_U_22
_atom_site_aniso_U_33
_atom_site_aniso_U_12
_atom_site_aniso_U_13
_atom_site_aniso_U_23
Fe1 0.011 0.022 0.033 0.004 0.005 0.006
"""


def reuse_probe(ctx):
    import numpy
    from diffpy.structure.parsers.p_cif import P_cif

    def sig(stru):
        return [(a.element, a.label, bool(a.anisotropy), tuple(numpy.round(a.xyz, 9)), tuple(numpy.round(numpy.array(a.U).flatten(), 10)),
                 round(float(a.occupancy), 9)) for a in stru]
    n = 0
    for seq in ([REUSE_B, REUSE_B], [REUSE_A, REUSE_B], [REUSE_B, REUSE_A, REUSE_B]):
        p = P_cif()
        for k, t in enumerate(seq):
            ctx.count(("reuse", len(seq), k))
            try:
                got, want = sig(p.parse(t)), sig(P_cif().parse(t))
            except Exception as e:   # noqa
                got, want = "raised %s" % type(e).__name__, None
            if got != want:
                n += 1
                ctx.violation("read #%d of %d with one parser object differs from the same read with a fresh parser "
                              "(state carried over between reads)" % (k + 1, len(seq)), {"kind": "parser-reuse", "cifs": seq},
                              key="parser-reuse:read%d" % (k + 1))
                break
    return n


def judge_probe(kind, ra, rb):
    if ra["status"] != "ok" or (rb is not None and rb["status"] != "ok"):
        return None
    if kind == "label-clash":
        labels = [a["label"] for a in ra["atoms"]]
        if len(set(labels)) != len(labels):
            return "distinct site labels but the expanded structure has labels %s" % labels
        return None
    d = cmp_atoms(ra["atoms"], rb["atoms"])
    return ("the same loop with its columns in another order reads differently: %s" % d) if d else None


# --------------------------------------------------------------------------------------------- model evaluation
def eval_model(ctx, blocks):
    """blocks: list of block dicts -> list of decoded results (or None when the model could not be evaluated)."""
    shards = [[] for _ in range(NSHARD)]
    for i, b in enumerate(blocks):
        shards[i % NSHARD].append((i, b))

    def run(k):
        if not shards[k]:
            return k, 0, ""
        text = g.PRELUDE + "\n".join(g.coq_case(b) for _, b in shards[k]) + "\n"
        rc, out = ctx.coq_eval("c07cases%d" % k, text, timeout=1500)
        return k, rc, out
    res = [None] * len(blocks)
    fails = []
    with ThreadPoolExecutor(NSHARD) as ex:
        for k, rc, out in ex.map(run, range(NSHARD)):
            if not shards[k]:
                continue
            parsed = g.parse_results(out) if rc == 0 else []
            if rc != 0 or len(parsed) != len(shards[k]):
                fails.append("shard %d: rc=%s, %d results for %d cases: %s" % (k, rc, len(parsed), len(shards[k]), out[-300:]))
                continue
            for (i, _), toks in zip(shards[k], parsed):
                try:
                    res[i] = g.decode(toks)
                except Exception as e:      # malformed output
                    fails.append("case %d: cannot decode the model output (%s)" % (i, e))
    return res, fails


def cmp_model(model, impl, tolp=g.TOL_POS):
    """Model result vs parser result.  None when they agree."""
    ms, ims = model["status"], impl["status"]
    if ms == "unsupported":
        return "skip"
    if ms != "ok" or ims != "ok":
        same = (ms == ims) or (ms == "escapes" and (ims == "key" or ims.startswith("exc:")))
        return None if same else "model status %s, parser status %s %s" % (ms, ims, impl.get("msg", ""))
    kind, num = model["src"]
    if kind in (0, 1, 2) and num != impl["sg_number"]:
        return "model finds setting #%s, parser.spacegroup.number = %s" % (num, impl["sg_number"])
    if (kind in (0, 2)) != (impl["sg_tab_index"] is not None):
        return "model: %s, parser.spacegroup %s a table object" % (("table object", "reordered copy", "table object", "custom group")[kind],
                                                                  "is" if impl["sg_tab_index"] is not None else "is not")
    if model["cell"] and any(abs(float(a) - b) > 1e-9 for a, b in zip(model["cell"], impl["cell"])):
        return "cell %s vs %s" % ([float(v) for v in model["cell"]], impl["cell"])
    return cmp_atoms(model["atoms"], impl["atoms"], tolp=tolp)


# --------------------------------------------------------------------------------------------- the check
def run(ctx):
    from diffpy.structure.spacegroups import SpaceGroupList
    ctx.trusted += ["Coq 8.16.1 kernel + vm_compute (no native_compute)",
                    "translate/c07_cif.py, sgtables.py, lookupspec.py, c09_atom.py (fail-closed ast translators; control flow of p_cif.py checked by normalised shape)",
                    "PyCifRW (tokenizer, loops, lower-casing of item names) is exercised, not modelled: the abstract block given to the model is written by the harness next to the CIF text",
                    "vlib/c07_gen.py (CIF writer, lattice formulas of the standard setting, decoding of the model output), vlib/c02_orbit.py (exact-fraction orbit oracle, robustness margins)",
                    "stdlib Reals axioms under the theorems over R (B_vs_U, column_order, fract_vs_cartn)",
                    "float rounding of numpy / float() is compared at 1e-6 (positions, mod 1), 1e-8 (tensors), 1e-9 (occupancy, cell); the model computes in exact rationals"]
    ctx.assumptions += ["model domain: tensors in the file are allowed at their site (GeneratorSite's projection is then the identity, C06), cell compatible with the operations, "
                        "operator translations within 1e-4 of a twelfth, coordinates on the grid 1/120000 written with 7 decimals, images farther apart than the expansion tolerance (margin rule of C02)",
                        "symmetry expansion enters through C02's exact orbit on that grid; the tolerance logic of expandPosition/GeneratorSite is C02's subject",
                        "column order: proved for the commuting subset (see Props/C07.v); outside it the order matters in model and code (known findings)",
                        "shuffled operator lists: the atoms of each orbit come in the order of the file's operators; compared as sets per site"]
    rng = ctx.rng
    thorough = ctx.tier == "thorough"
    uniq = unique_names()
    n = len(SpaceGroupList)
    full_set = set(range(n)) if thorough else set(rng.sample(range(n), 14))
    reps = 2 if thorough else 1
    tasks = []
    for rep in range(reps):
        for si in range(n):
            sg = SpaceGroupList[si]
            meta = {"number": sg.number, "short": sg.short_name, "pdb": sg.pdb_name, "nops": len(sg.symop_list),
                    "short_unique": uniq[si][0], "pdb_unique": uniq[si][1]}
            # thorough: every setting with every spelling once, then again on strata found by the full search with 3 random spellings
            tasks.append((si, rng.getrandbits(48), (si in full_set) and rep == 0, thorough and rep == 1, meta, 3 if thorough else 1))
    probes = probe_cifs(rng)
    with ProcessPoolExecutor(min(core.NPROC, 16)) as ex:
        results = list(ex.map(work_setting, tasks, chunksize=4))
    ctx.log("implementation: %d settings x spellings parsed and judged" % len(results))
    probe_impl = [(g.run_impl(ta), g.run_impl(tb) if tb else None) for _, _, ta, tb, _, _ in probes]

    # ---------------- build + model evaluation (under the build lock: Gen/ is shared) ----------------
    cases = [c for r in results for c in r["cases"]]
    blocks = [c["blk"] for c in cases]
    pblocks = []
    for (_, _, _, _, ba, bb) in probes:
        pblocks.append(ba)
        if bb is not None:
            pblocks.append(bb)
    model, fails = [None] * (len(blocks) + len(pblocks)), ["not evaluated"]
    with core.BuildLock():
        ok = (ctx.regen("sgtables", sgtables.generate) and ctx.regen("lookupspec", lookupspec.generate)
              and ctx.regen("c09_atom", c09_atom.generate) and ctx.regen("c07_cif", c07_cif.generate))
        built = False
        if ok:
            built, _ = ctx.coq(TARGETS, theorems_in={"Props/C07"}, timeout=2400)
        if ok and os.path.exists(os.path.join(core.COQ, "Model/C07_Pre.vo")):
            model, fails = eval_model(ctx, blocks + pblocks)
    ctx.obligation("correspondence:model-evaluates", not fails, "; ".join(fails[:3]))

    # ---------------- (a) model vs parser ----------------
    nagree = nskip = 0
    diffs = []
    for c, m in zip(cases, model[:len(blocks)]):
        if m is None:
            continue
        d = cmp_model(m, c["impl"])
        ctx.count(("model", c["si"], c["name"]))
        if d == "skip":
            nskip += 1
        elif d:
            diffs.append((c, d))
        else:
            nagree += 1
    # probes: the model must show the same behaviour as the code, also outside the commuting subset
    pm = model[len(blocks):]
    k = 0
    pdiffs = []
    for (kind, key, ta, tb, ba, bb), (ra, rb) in zip(probes, probe_impl):
        for r in ((ra,) if rb is None else (ra, rb)):
            m = pm[k]
            k += 1
            if m is None:
                continue
            d = cmp_model(m, r, tolp=1.0 / g.GRID)     # the model reports positions on its grid; a misplaced atom is off the grid
            ctx.count(("model-probe", key))
            if d and d != "skip":
                pdiffs.append((key, d))
            elif not d:
                nagree += 1
    scheme = None
    try:
        scheme = c07_cif.load()["label_scheme"]
    except Exception:
        pass
    # the model is written for the scheme the translator found; nothing to excuse here
    ctx.obligation("correspondence:model-vs-P_cif", not diffs and not pdiffs,
                   "; ".join(["setting #%d %s: %s" % (SpaceGroupList[c["si"]].number, c["name"], d) for c, d in diffs[:4]] + ["%s: %s" % kd for kd in pdiffs[:3]]))
    for c, d in diffs[:5]:
        ctx.notes.append({"model-difference": d, "setting": SpaceGroupList[c["si"]].number, "spelling": c["name"], "cif": c["text"]})

    # ---------------- (b) finder: property text on the implementation ----------------
    nviol = 0
    for c in cases:
        ctx.count(("finder", c["si"], c["name"]))
        for clause, msg in c["problems"][:3]:
            nviol += 1
            sgx = SpaceGroupList[c["si"]]
            ctx.violation("setting #%d (%s), spelling %s: %s: %s" % (sgx.number, sgx.short_name, c["name"], clause, msg),
                          {"kind": "cif", "setting": sgx.number, "table_index": c["si"], "spelling": c["name"], "clause": clause, "cif": c["text"],
                           "judge": c["replay"]},
                          key="%s:%s:sg%d" % (clause, c["name"], sgx.number))
    for (kind, key, ta, tb, ba, bb), (ra, rb) in zip(probes, probe_impl):
        ctx.count(("probe", key))
        msg = judge_probe(kind, ra, rb)
        if msg:
            nviol += 1
            ctx.violation("%s: %s" % (key, msg), {"kind": kind, "cif": ta, "cif_b": tb}, key=key)
    # one parser object used for several reads must behave like a fresh parser each time (no state carried between reads)
    nviol += reuse_probe(ctx)
    # when a correspondence broke, look around the differing cases with the oracle (already done for every case above);
    # the differing CIFs themselves are reported when the oracle or the spelling comparison objects to them
    skipped = [r for r in results if r["skip"]]
    kinds = {}
    for c in cases:
        kinds[c["name"]] = kinds.get(c["name"], 0) + 1
    ctx.sample({"cif": cases[0]["text"][:1200]} if cases else {})
    for c in cases[1:3]:
        ctx.sample({"setting": SpaceGroupList[c["si"]].number, "spelling": c["name"], "cif_head": c["text"][:400]})
    ctx.coverage.update({
        "rule": "one key per (setting, spelling kind) for the model comparison and for the finder; probes keyed by finding",
        "settings": len(set(r["si"] for r in results if not r["skip"])), "settings_skipped": [(r["si"], r["skip"]) for r in skipped][:10],
        "cifs": len(cases), "spelling_kinds": kinds, "model_agreements": nagree, "model_outside_domain": nskip, "model_differences": len(diffs) + len(pdiffs),
        "finder_violations": nviol, "label_scheme": scheme, "settings_with_all_spellings": len(full_set),
        "site_kinds": sorted(set(k for r in results if not r["skip"] for k in map(tuple, r["crystal"]["strata"])))[:40],
        "exhaustive": False})


def replay(ctx, case):
    """Re-run a stored CIF (or pair) on the current tree."""
    c = case.get("case", case)
    ta, tb = c.get("cif"), c.get("cif_b")
    ra = g.run_impl(ta)
    rb = g.run_impl(tb) if tb else None
    ctx.log("replay: status %s, %d atoms, labels %s" % (ra["status"], len(ra.get("atoms", [])), [a["label"] for a in ra.get("atoms", [])][:12]))
    kind = c.get("kind")
    if kind in ("label-clash", "column-order"):
        msg = judge_probe(kind, ra, rb)
        ctx.obligation("replay", True)
        if msg:
            ctx.violation(msg, c, key=case.get("key"))
    else:
        ctx.obligation("replay", True)
        j = c.get("judge")
        if ra["status"] != "ok" or not j:
            if ra["status"] != "ok":
                ctx.violation("the parser rejects the file: %s %s" % (ra["status"], ra.get("msg", "")), c, key=case.get("key"))
            return
        from diffpy.structure.spacegroups import SpaceGroupList
        crystal = deser_crystal(j["crystal"])
        sg = SpaceGroupList[crystal["si"]]
        ops = c02_orbit.exact_ops(sg)
        probs = judge_oracle(crystal, ops, j["op_order"], ra, g.lattice(crystal["cell"]))
        if j["op_order"] is None and ra["sg_tab_index"] != crystal["si"]:
            probs.append(("spacegroup", "parser.spacegroup is #%s, the file describes #%s" % (ra["sg_number"], sg.number)))
        if j.get("base_cif"):
            rb = g.run_impl(j["base_cif"])
            if rb["status"] == "ok":
                if j["rel"] == "same":
                    d = cmp_atoms(rb["atoms"], ra["atoms"])
                else:
                    exp = g.expected(crystal, ops)
                    sizes = [sum(1 for e in exp if e["site"] == s["label"]) for s in crystal["sites"]]
                    d = None if canon_sites(rb["atoms"], sizes) == canon_sites(ra["atoms"], sizes) else "the sets of atoms per site differ"
                if d:
                    probs.append(("spelling", "this spelling gives another structure than the base spelling: %s" % d))
        for clause, msg in probs[:3]:
            ctx.violation("%s: %s" % (clause, msg), c, key=case.get("key"))
        ctx.log("replay judged against the oracle: %d problem(s)" % len(probs))
