"""C12 - automatic format detection gives the same result as naming the format.

Proof: Props/C12.v (what the detection loop computes; no foreign exception given C13; for a text accepted only by its own
format the result is that format for every file name).  Ties: (T) translate/c12_index.py (registry, ordering rule and
loop shape, except clauses); (C) the Coq model of the ordering and of the loop is evaluated on live per-parser outcomes and
compared with the live P_auto; the rejection table (hypothesis of the written-text theorem) is measured on the texts of the
7 writers.  Finder: on the real code, auto == explicit format for every writer text x file-name hint x entry point, and
failures are StructureFormatError listing every complaining parser.
"""
import os
import re
import shutil
import tempfile
import time

from translate import c12_index, c13_exc, c04_fmt
from vlib import core
from vlib import c13_corrupt as C

TARGETS = ["Props/C12.vo"]
TABLE_TARGETS = ["Props/C12_Table.vo", "Props/C12_Table2.vo"]
TABLE_FORMATS = ["xyz", "rawxyz", "pdffit", "discus"]       # formats with a Coq writer model (C04) and a parser model (C13)

KINDS = ["ValueError", "IndexError", "KeyError", "TypeError", "StopIteration", "ZeroDivisionError", "OverflowError",
         "UnboundLocalError", "NameError", "AttributeError", "SyntaxError", "AssertionError", "RecursionError", "MemoryError",
         "UnicodeError", "LinAlgError", "LatticeError", "SymmetryError", "StarError", "YappsSyntaxError"]


def signature(stru):
    """Exact, comparable content of a parsed structure: atoms (element, fractional xyz, occupancy, U) and lattice."""
    if stru is None:
        return None
    import numpy
    lat = [float(x) for x in stru.lattice.abcABG()]
    atoms = []
    for a in stru:
        atoms.append([a.element, [float(x) for x in a.xyz], float(a.occupancy), [float(x) for x in numpy.ravel(a.U)]])
    return {"lattice": lat, "atoms": atoms}


def same_sig(a, b, tol=0.0):
    if a is None or b is None:
        return a is b
    if len(a["atoms"]) != len(b["atoms"]):
        return False

    def close(x, y):
        return x == y or (x != x and y != y) or abs(x - y) <= tol

    if not all(close(x, y) for x, y in zip(a["lattice"], b["lattice"])):
        return False
    for p, q in zip(a["atoms"], b["atoms"]):
        if p[0] != q[0] or not close(p[2], q[2]):
            return False
        if not all(close(x, y) for x, y in zip(p[1], q[1])) or not all(close(x, y) for x, y in zip(p[3], q[3])):
            return False
    return True


def outcome(fn):
    """Run fn() -> (structure, reported format); classify like the C13 engine."""
    import contextlib
    import io
    import warnings
    try:
        with contextlib.redirect_stdout(io.StringIO()), warnings.catch_warnings():
            warnings.simplefilter("ignore")
            stru, fmt = fn()
        return {"kind": "ok" if stru is not None else "none", "format": fmt, "sig": signature(stru)}
    except Exception as e:
        kind, site, raised_at = C.classify(e)
        return {"kind": kind, "format": None, "sig": None, "msg": str(e), "site": site}


def explicit_outcomes(text, fmts):
    from diffpy.structure.parsers import getParser
    res = {}
    for f in fmts:
        def run(f=f):
            p = getParser(f)
            return p.parse(text), f
        res[f] = outcome(run)
    return res


def auto_entries(text, hint, tmpdir):
    """All entry points with the file-name hint `hint` (None = no file name)."""
    from diffpy.structure import Structure, loadStructure
    from diffpy.structure.parsers import getParser
    out = {}
    lines = text.rstrip("\r\n").split("\n")

    def with_parser(method, arg):
        def run():
            p = getParser("auto")
            if hint is not None and method != "parseFile":
                p.filename = hint
            return getattr(p, method)(arg), p.format
        return run

    out["parser.parse"] = outcome(with_parser("parse", text))
    out["parser.parseLines"] = outcome(with_parser("parseLines", lines))
    if hint is None:
        def rs():
            s = Structure()
            p = s.readStr(text)
            return s, p.format
        out["Structure.readStr"] = outcome(rs)
    else:
        path = os.path.join(tmpdir, hint)
        os.makedirs(os.path.dirname(path), exist_ok=True)
        with open(path, "w", encoding="utf-8", newline="") as f:
            f.write(text)
        out["parser.parseFile"] = outcome(with_parser("parseFile", path))
        out["loadStructure"] = outcome(lambda: (loadStructure(path), None))

        def rd():
            s = Structure()
            p = s.read(path)
            return s, p.format
        out["Structure.read"] = outcome(rd)
        out["Structure(filename=)"] = outcome(lambda: (Structure(filename=path), None))
    return out


def work(task):
    tid, text, wfmt, hints, fmts = task
    tmpdir = tempfile.mkdtemp(prefix="c12_")
    try:
        from diffpy.structure.parsers import getParser
        exp = explicit_outcomes(text, fmts)
        orders = {}
        autos = {}
        for h in hints:
            p = getParser("auto")
            p.filename = h if h is not None else None
            orders[h] = p._getOrderedFormats()
            autos[h] = auto_entries(text, h, tmpdir)
        return tid, exp, orders, autos
    finally:
        shutil.rmtree(tmpdir, ignore_errors=True)


# ---------------------------------------------------------------------------------------------------
def coq_string(s):
    return '"' + s.replace('"', '""') + '"'


def coq_kind(kind):
    if kind in ("ok",):
        return "Ok (Some 0)"
    if kind == "none":
        return "Ok None"
    if kind == "StructureFormatError":
        return "Raise FormatError"
    if kind == "NotImplementedError":
        return "Raise NotImplemented"
    n = kind.split(":", 1)[1].split(".")[-1] if kind.startswith("escape:") else kind
    return "Raise %s" % (n if n in KINDS else "ExceptionK")


COQ_PRELUDE = """From Coq Require Import List String Bool.
From DS Require Import Base.C13_Exn Gen.C12_ParserIndex Model.C12_Auto.
Import ListNotations. Open Scope string_scope.
Definition kname (k : kind) : string :=
  match k with ValueError => "ValueError" | IndexError => "IndexError" | KeyError => "KeyError" | TypeError => "TypeError"
  | StopIteration => "StopIteration" | ZeroDivisionError => "ZeroDivisionError" | OverflowError => "OverflowError"
  | UnboundLocalError => "UnboundLocalError" | NameError => "NameError" | AttributeError => "AttributeError"
  | SyntaxError => "SyntaxError" | AssertionError => "AssertionError" | RecursionError => "RecursionError"
  | MemoryError => "MemoryError" | UnicodeError => "UnicodeError" | LinAlgError => "LinAlgError" | LatticeError => "LatticeError"
  | SymmetryError => "SymmetryError" | StarError => "StarError" | YappsSyntaxError => "YappsSyntaxError"
  | FormatError => "FormatError" | NotImplemented => "NotImplemented" | _ => "Exception" end.
Definition enc (r : auto_result nat) : string :=
  match r with AOk f _ => "OK " ++ f | AFail l => "FAIL " ++ String.concat "," l | APropagate k => "PROP " ++ kname k end.
Definition tab (t : list (string * res (option nat))) (f : string) : res (option nat) :=
  match find (fun p => String.eqb (fst p) f) t with Some p => snd p | None => Raise KeyError end.
"""


def coq_list_strings(out, marker):
    """Parse `= ["a"; "b"] : list string` blocks that follow a marker comment in coqc output order."""
    res = []
    for m in re.finditer(r"=\s*(\[.*?\])\s*:\s*list (?:string|\(list string\))", out, re.S):
        res.append(m.group(1))
    return res


def parse_coq_strs(block):
    return [s.replace('""', '"') for s in re.findall(r'"((?:[^"]|"")*)"', block)]


def build(ctx):
    with core.BuildLock():
        ok = ctx.regen("c12_index", c12_index.generate)
        if ok:
            ctx.coq(TARGETS, theorems_in={"Props/C12"})
        # the rejection table: parser models of C13 instantiated with the writer/codec models of C04
        ok13 = ctx.regen("c13_exc", c13_exc.generate)
        ok04 = ctx.regen("c04_fmt", c04_fmt.generate)
        ctx.table_ok = False
        if ok and ok13 and ok04:
            tok, _ = ctx.coq(TABLE_TARGETS, theorems_in={"Props/C12_Table", "Props/C12_Table2"})
            ctx.table_ok = tok
        return ok


def side_conditions(wf, text):
    """The side conditions of the rejection-table theorems, evaluated on a writer's text."""
    lines = text.split("\n")
    if wf == "xyz":
        title = lines[1].split() if len(lines) > 1 else []
        rows = [ln.split() for ln in lines[2:] if ln.split()]
        return not (title and title[0] == "cell") and all(r[0] != "cell" for r in rows)
    if wf == "rawxyz":
        return all(ln.split()[0] != "cell" for ln in lines if ln.split())
    if wf == "xcfg":
        return all(ln.split() != ["cell"] for ln in lines)
    if wf == "discus":
        i = lines.index("atoms") if "atoms" in lines else len(lines)
        for ln in lines[i + 1:]:
            w = ln.split()
            if w:
                try:
                    float(w[0])
                    return False
                except ValueError:
                    pass
        return True
    return True


WITNESS_XYZ = "1\ncell 1 1 1 90 90 90\nC   0 0 0\n"


def table_correspondence(ctx, results, text_of, wfmt_of):
    """conc_g (C13 control-flow model + C04 codecs) evaluated in Coq on the ACTUAL texts of the four writers, against the
    real parsers (every cell of the 4x4 block, diagonal included), plus the title witness of the refuted cell."""
    from diffpy.structure.parsers import getParser
    # texts of all 7 writers (columns), read by the 4 modelled parsers (rows)
    cases = [(tid, text_of[tid], wfmt_of[tid]) for tid in sorted(results) if wfmt_of[tid]]
    cases = [c for c in cases if c[1].isascii()][:42 if ctx.tier == "quick" else 140]
    cases.append((("witness", 0, "xyz"), WITNESS_XYZ, "xyz"))
    if not getattr(ctx, "table_ok", False):
        ctx.obligation("correspondence:table-models-vs-live-parsers", False, "Props/C12_Table not built")
        return
    body = """From Coq Require Import List String ZArith DecimalString.
From DS Require Import Base.C13_Exn Base.C04_Text Base.C04_Decimal Model.C04_Fmt Model.C04_Pdffit Model.C12_Conc.
Import ListNotations. Open Scope string_scope.
Definition shw (r : res nat) : string := match r with Ok n => "ok " ++ NilEmpty.string_of_uint (Nat.to_uint n) | Raise FormatError => "FormatError"
  | Raise NotImplemented => "NotImplemented" | Raise _ => "other" end.
Definition run4 (ls : list string) : list string :=
  let l := map s ls in
  [shw (conc_xyz l); shw (conc_rawxyz l);
   shw (conc_pdffit (fun _ => Ok tt) (fun v _ => Ok v) l);
   shw (conc_discus (fun _ => Ok tt) (fun v _ => Ok v) (fun _ _ => Ok tt) (fun _ => [dzero; dzero; dzero; dzero; dzero; dzero]) l)].
"""
    body += "Eval vm_compute in [%s].\n" % ";\n ".join(
        "run4 [%s]" % "; ".join(coq_string(ln) for ln in t.rstrip("\r\n").split("\n")) for _, t, _ in cases)
    with core.BuildLock():
        # another check may have regenerated a Gen file in between: bring the dependencies up to date under the same lock
        core.coq_make(["Model/C12_Conc.vo"], timeout=900)
        rc, out = ctx.coq_eval("c12_table", body, timeout=900)
    m = re.search(r"=\s*(\[.*\])\s*:\s*list \(list string\)", out, re.S)
    bad = []
    if rc != 0 or not m:
        bad.append("coq evaluation failed: " + out[-300:])
    else:
        rows = re.findall(r"\[([^\[\]]*)\]", m.group(1)[1:-1])
        if len(rows) != len(cases):
            bad.append("expected %d result rows, got %d" % (len(cases), len(rows)))
        for (tid, text, wf), row in zip(cases, rows):
            model = parse_coq_strs(row)
            for g, mres in zip(TABLE_FORMATS, model):
                o = outcome(lambda g=g: (getParser(g).parse(text), g))
                live = "ok %d" % len(o["sig"]["atoms"]) if o["kind"] == "ok" else \
                    {"StructureFormatError": "FormatError", "NotImplementedError": "NotImplemented"}.get(o["kind"], "other")
                ctx.count(("table-cell", wf, g, live.split()[0]))
                if live != mres:
                    bad.append("%s text (%s) read by %s: model %s, parser %s" % (wf, tid, g, mres, live))
    ctx.obligation("correspondence:table-models-vs-live-parsers", not bad, "; ".join(bad[:4]))
    ctx.coverage["table_model_cases"] = len(cases) * 4


def registry_and_order_correspondence(ctx, ok):
    """Model registry / inputFormats / outputFormats / ordered_formats vs the live objects."""
    from diffpy.structure.parsers import getParser, inputFormats, outputFormats, parser_index
    names = [None, "", "a", "a.cif", "b.pdb", "c.stru", "d.rstr", "e.xyz", "f.xcfg", "g.eye", "h.cfg", "dir/sub/x.stru", "dir.xyz/plain",
             "x.XYZ", "x.Cif", ".xyz", "xyz", "a.xyz.bak", "a.b.cif", "x.stru.xyz", "x.xyz.stru", "noext.", "x.cifx", "x.pdb ", "cif",
             "a.stru/b.cif", "/abs/path/file.eye", "x.cfg.cfg", "weird*.xyz", "q?.pdb", "[a].cif", "x.rstr.cif.pdb"]
    live = []
    for n in names:
        p = getParser("auto")
        p.filename = n
        live.append(p._getOrderedFormats())
    if not ok:
        ctx.obligation("correspondence:registry-and-order-vs-live", False, "model not built")
        return
    body = COQ_PRELUDE
    body += "Eval vm_compute in input_formats.\nEval vm_compute in output_formats.\n"
    body += "Eval vm_compute in (map (fun e => fe_name e ++ \"|\" ++ fe_module e ++ \"|\" ++ fe_ext e ++ \"|\" ++ String.concat \"|\" (fe_patterns e)) parser_index).\n"
    body += "Eval vm_compute in [%s].\n" % "; ".join(
        "String.concat \",\" (ordered_formats %s)" % ("None" if n is None else "(Some %s)" % coq_string(n)) for n in names)
    with core.BuildLock():
        core.coq_make(["Model/C12_Auto.vo"], timeout=900)
        rc, out = ctx.coq_eval("c12_order", body)
    blocks = coq_list_strings(out, None)
    bad = []
    if rc != 0 or len(blocks) != 4:
        bad.append("coq evaluation failed: " + out[-300:])
    else:
        if parse_coq_strs(blocks[0]) != inputFormats():
            bad.append("input_formats: model %s live %s" % (parse_coq_strs(blocks[0]), inputFormats()))
        if parse_coq_strs(blocks[1]) != outputFormats():
            bad.append("output_formats: model %s live %s" % (parse_coq_strs(blocks[1]), outputFormats()))
        reg = ["%s|%s|%s|%s" % (k, v["module"], v["file_extension"], v["file_pattern"]) for k, v in parser_index.items()]
        if parse_coq_strs(blocks[2]) != reg:
            bad.append("registry differs from the live parser_index")
        mo = parse_coq_strs(blocks[3])
        for n, m, l in zip(names, mo, live):
            ctx.count(("order", n))
            if m.split(",") != l:
                bad.append("ordered_formats(%r): model %s live %s" % (n, m, l))
    ctx.obligation("correspondence:registry-and-order-vs-live", not bad, "; ".join(bad[:4]))


def texts_for(ctx):
    """(tid, text, written format or None) : texts of the 7 writers from generated structures, then non-structure text."""
    quick = ctx.tier == "quick"
    out = []
    strus = C.generated_structures(ctx.rng, 6 if quick else 48)
    for k, s in enumerate(strus):
        for f, t in C.write_all(s).items():
            if t is not None:
                out.append((("written", k, f), t, f))
    rng = ctx.rng
    prose = ["hello world", "The quick brown fox\njumps over the lazy dog.\n", "1 2 3 4 5 6 7 8 9\n", "\n\n\n", "",
             "# just a comment\n", "data_x\n_a 1\n", "<html><body>x</body></html>", "{\"a\": [1, 2, 3]}", "0.5 0.5\n0.1 0.2\n",
             "title x\nformat pdffit\n", "ATOM\n", "loop_\n_a\n", "C 0 0\n", "3\n\nC 0 0 0\n", "Number of particles = 2\n",
             "cell 1 2 3 90 90 90\natoms\n", "molecule\n", "title t\ncell 1 1 1 90 90 90\nmolecule\natoms\n", "\x00\x01\x02", "é ü\n"]
    for i, t in enumerate(prose):
        out.append((("prose", i, None), t, None))
    docs = C.valid_documents(ctx.rng, "quick")
    # header damage: each of the first 14 lines of one written document per format deleted in turn (texts that look
    # like a format except for one record are the ones that reach a parser's internals)
    seen_fmt = set()
    for fmt, name, text in docs:
        if fmt in seen_fmt or not name.startswith("written"):
            continue
        seen_fmt.add(fmt)
        lines = text.split("\n")
        for i in range(min(14, len(lines))):
            out.append((("header-line-deleted", i, fmt), "\n".join(lines[:i] + lines[i + 1:]), None))
    # micro documents: every one-line text over a small alphabet of record heads (with 0, 1, 2 final newlines), and two-line
    # texts (all in thorough, a sample in quick) - a lone integer, a lone `cell` record ... are what single parsers mis-handle
    micro = C.micro_documents()
    one = [m for m in micro if m[0].startswith("1:")]
    two = [m for m in micro if m[0].startswith("2:")]
    for nm, t in one + (rng.sample(two, 60) if quick else two):
        out.append((("micro", nm, None), t, None))
    # CIF with a non-tabulated operation list whose loop is damaged (identity deleted / replaced, single operators)
    sf = C.symop_faults()
    keep = [x for x in sf if x[0].startswith(("symop_only", "symop_del"))]
    rest = [x for x in sf if x not in keep]
    for nm, t in keep + (rng.sample(rest, 20) if quick else rest):
        out.append((("symop", nm, None), t, None))
    n_soup = 25 if quick else 400
    for i in range(n_soup):
        fmt, name, text = docs[rng.randrange(len(docs))]
        faults = list(C.all_single_faults(fmt, text))
        d, t = faults[rng.randrange(len(faults))]
        out.append((("corrupted", i, fmt), t, None))
        out.append((("soup", i, fmt), C.token_soup(fmt, rng), None))
    return out


def hints_for(wfmt, quick, rng):
    ext = {"cif": "t.cif", "pdb": "t.pdb", "discus": "t.stru", "pdffit": "t.stru", "xyz": "t.xyz", "rawxyz": "t.xyz", "xcfg": "t.xcfg"}
    allh = ["t.cif", "t.pdb", "t.stru", "t.rstr", "t.xyz", "t.xcfg", "t.eye", "t.cfg", "sub/t.dat", "t"]
    if wfmt is None:
        return [None] + (rng.sample(allh, 2) if quick else allh)
    return [None] + allh


def run(ctx):
    ctx.trusted += [
        "Coq 8.16.1 kernel + vm_compute; theorems closed under the global context (no axioms)",
        "translate/c12_index.py (fail-closed: registry literal, shape of inputFormats/_getOrderedFormats/_wrapParseMethod after "
        "alpha-renaming, the two except clauses); fnmatch is modelled for `*.<literal>` patterns only (others are refused)",
        "the parsers themselves are the functions p of the theorems: their outcomes are taken from the live parsers (C13 proves "
        "their exception discipline)",
    ]
    ctx.assumptions += [
        "C12_auto_on_written_text_partial assumes the rejection table (every other registered parser rejects a writer's text); "
        "the table is measured each run on generated structures x 7 writers x 7 parsers and reported in the evidence; for the "
        "4x4 block xyz/rawxyz/pdffit/discus the twelve cross cells are theorems (Props/C12_Table.v) about the C13 parser models "
        "instantiated with the C04 codecs, under side conditions (title/element is not the word `cell`; discus element symbols do "
        "not read as numbers) whose necessity is proved by a witness; the cif, pdb, xcfg rows and columns stay measured",
        "own-format acceptance (the diagonal) is a hypothesis of C12_auto_written_*_partial: measured here, proved for C04's reader "
        "models by C04's round-trip theorems",
        "C12_auto_never_propagates_given_C13 assumes C13 for every registered parser (known C13 findings: cif getSymOp eval, cif "
        "non-scalar items)",
        "structures are compared exactly (same parser, same text); timestamps are not part of the comparison",
    ]
    quick = ctx.tier == "quick"
    ok = build(ctx)
    registry_and_order_correspondence(ctx, ok)

    from diffpy.structure.parsers import inputFormats
    fmts = [f for f in inputFormats() if f != "auto"]
    texts = texts_for(ctx)
    tasks = [(tid, t, wf, hints_for(wf, quick, ctx.rng), fmts) for tid, t, wf in texts]
    ctx.log("texts %d (writer texts %d)" % (len(tasks), sum(1 for t in tasks if t[2])))
    t0 = time.time()
    results = {}
    with C.pool() as pool:
        for tid, exp, orders, autos in pool.imap_unordered(work, tasks, chunksize=1):
            results[tid] = (exp, orders, autos)
    ctx.log("ran detection on %d texts in %.1fs" % (len(results), time.time() - t0))
    text_of = {t[0]: t[1] for t in tasks}
    wfmt_of = {t[0]: t[2] for t in tasks}

    table_correspondence(ctx, results, text_of, wfmt_of)
    n_side = sum(1 for tid in results if wfmt_of[tid])
    n_side_ok = sum(1 for tid in results if wfmt_of[tid] and side_conditions(wfmt_of[tid], text_of[tid]))
    ctx.coverage["table_side_conditions"] = "%d of %d generated writer texts satisfy the side conditions of the cell theorems" % (n_side_ok, n_side)

    # ---- rejection table (hypothesis of the written-text theorem) ------------------------------------
    table = {}
    offdiag = []
    for tid, (exp, orders, autos) in results.items():
        wf = wfmt_of[tid]
        if not wf:
            continue
        for g, o in exp.items():
            k = "accept" if o["kind"] == "ok" else ("reject" if o["kind"] in ("StructureFormatError", "NotImplementedError") else o["kind"])
            table[(wf, g, k)] = table.get((wf, g, k), 0) + 1
            ctx.count(("table", wf, g, k))
            if (g == wf) != (k == "accept") or (g != wf and k != "reject"):
                offdiag.append("%s text, %s parser: %s" % (wf, g, o["kind"]))
    ctx.obligation("correspondence:rejection-table-is-diagonal-on-writer-texts", not offdiag, "; ".join(sorted(set(offdiag))[:5]))

    # ---- model of the loop vs the live P_auto ----------------------------------------------------------
    cases = []
    for tid, (exp, orders, autos) in results.items():
        for h, ents in autos.items():
            cases.append((tid, h, exp, orders[h], ents))
    pred = {}
    if ok:
        body = COQ_PRELUDE
        chunk = []
        for i, (tid, h, exp, order, ents) in enumerate(cases):
            tabv = "[%s]" % "; ".join("(%s, %s)" % (coq_string(f), coq_kind(o["kind"])) for f, o in exp.items())
            fn = "None" if h is None else "(Some %s)" % coq_string(h)
            chunk.append("enc (auto (tab %s) %s)" % (tabv, fn))
        body += "Eval vm_compute in [%s].\n" % ";\n ".join(chunk)
        with core.BuildLock():
            core.coq_make(["Model/C12_Auto.vo"], timeout=900)
        rc, out = ctx.coq_eval("c12_auto", body, timeout=900)
        blocks = coq_list_strings(out, None)
        if rc == 0 and blocks:
            for c, r in zip(cases, parse_coq_strs(blocks[0])):
                pred[(c[0], c[1])] = r
    mism = []
    seen_v = {}
    none_stop = 0
    n_entries = 0
    for tid, h, exp, order, ents in cases:
        text = text_of[tid]
        wf = wfmt_of[tid]
        # expected from the live explicit outcomes, by the property itself
        first = None
        for f in order:
            if exp[f]["kind"] == "ok" or exp[f]["kind"].startswith("escape:"):
                first = f
                break
        for en, o in ents.items():
            n_entries += 1
            ctx.count(("auto", wf or tid[0], "hint" if h else "nohint", en, o["kind"], o.get("format")))
            live = ("OK " + (o["format"] or "?")) if o["kind"] == "ok" else None
            if o["kind"] == "StructureFormatError":
                got = [f for f in order if re.search(r"(^|\n)%s: " % re.escape(f), o.get("msg", ""))]
                live = "FAIL " + ",".join(got)
            elif o["kind"].startswith("escape:"):
                n = o["kind"].split(":", 1)[1].split(".")[-1]
                live = "PROP " + (n if n in KINDS else "Exception")
            elif o["kind"] == "NotImplementedError":
                live = "PROP NotImplemented"
            elif o["kind"] == "none":
                live = "NONE"
            p = pred.get((tid, h))
            if p is not None and o["format"] is None and live and live.startswith("OK ") and p.startswith("OK "):
                live = p            # entry points that do not report the format (loadStructure, Structure(filename=))
            if p is not None and live != p:
                mism.append("%s hint %r %s: model %s, live %s" % (tid, h, en, p, live))

            def viol(what, key):
                if key not in seen_v:
                    seen_v[key] = 0
                    ctx.violation(what, {"text": text, "written_format": wf, "hint": h, "entry": en, "outcome": {k: v for k, v in o.items() if k != "sig"},
                                         "explicit": {f: x["kind"] for f, x in exp.items()}, "order": order}, key=key)
                seen_v[key] += 1

            # ---- the property on the real code ---------------------------------------------------------
            if o["kind"] == "NotImplementedError":
                viol("automatic detection let NotImplementedError escape (%s, file name %r): not the library's format error" % (en, h),
                     "auto:propagates:NotImplementedError")
                continue
            if o["kind"].startswith("escape:"):
                parts = o.get("site", "").split(":")
                func = parts[1] if len(parts) > 1 else "?"
                chain = parts[3] if len(parts) > 3 else ""
                exc = o["kind"].split(":", 1)[1].split(".")[-1]
                if "getSymOp" in chain.split(">"):
                    func = "getSymOp"
                viol("automatic detection let %s escape (%s, file name %r): not the library's format error" % (o["kind"].split(":", 1)[1], en, h),
                     "auto:%s:%s" % (func, exc))
                continue
            if o["kind"] == "ok":
                g = o["format"]
                if g is None:                    # entry point without a parser object: compare with the first accepting format
                    g = first
                if g is None or g not in exp or exp[g]["kind"] != "ok":
                    viol("detection reports format %r whose own parser does not accept the text (%s, file name %r)" % (g, en, h),
                         "auto:reported-format-rejects:%s" % (wf or "text"))
                elif not same_sig(o["sig"], exp[g]["sig"]):
                    viol("detection (%s, file name %r) returned atoms/lattice different from format %r named explicitly" % (en, h, g),
                         "auto:differs-from-explicit:%s:%s" % (wf or "text", g))
                elif wf and g != wf and side_conditions(wf, text) \
                        and not (exp[wf]["kind"] == "ok" and same_sig(o["sig"], exp[wf]["sig"], 1e-6)):
                    viol("text written as %s is detected as %s with different atoms/lattice (%s, file name %r)" % (wf, g, en, h),
                         "auto:wrong-format:%s:%s" % (wf, g))
            elif wf:
                viol("detection failed on a text written by the %s writer (%s, file name %r): %s" % (wf, en, h, o.get("msg", "")[:120]),
                     "auto:fails-on-written:%s:%s" % (wf, o["kind"]))
            elif o["kind"] == "StructureFormatError":
                # a parser that returns None has not accepted the text: the first ACCEPTING parser decides
                acc = next((f for f in order if exp[f]["kind"] == "ok" or exp[f]["kind"].startswith("escape:")), None)
                missing = [f for f in order if exp[f]["kind"] == "StructureFormatError"
                           and not re.search(r"(^|\n)%s: " % re.escape(f), o.get("msg", ""))]
                stop_at = acc if acc is not None else (missing[0] if missing else None)
                nones = [f for f in (order[:order.index(stop_at)] if stop_at else []) if exp[f]["kind"] == "none"]
                if acc is not None and exp[acc]["kind"] == "ok":
                    if nones:
                        none_stop += 1
                        viol("detection stops at the %s parser, which returned None, and reports failure although the %s parser accepts the text "
                             "(%s, file name %r)" % (nones[0], acc, en, h), "auto:none-result-stops-detection:%s" % nones[0])
                    else:
                        viol("detection failed although the %s parser accepts the text (%s, file name %r)" % (acc, en, h),
                             "auto:fails-although-accepted:%s" % acc)
                elif missing:
                    if nones:
                        none_stop += 1
                        viol("detection stops at the %s parser, which returned None, and reports failure without the complaints of %s "
                             "(%s, file name %r)" % (nones[0], missing, en, h), "auto:none-result-stops-detection:%s" % nones[0])
                    else:
                        viol("the failure message of detection does not list the complaint of %s (%s, file name %r)" % (missing, en, h),
                             "auto:complaint-missing")
            elif o["kind"] == "none":
                none_stop += 1
    ctx.obligation("correspondence:loop-model-vs-live-P_auto", ok and not mism and len(pred) == len(cases),
                   "; ".join(mism[:4]) if mism else ("" if ok and len(pred) == len(cases) else "model evaluation failed"))
    for c in cases[:4]:
        ctx.sample({"text": text_of[c[0]][:200], "hint": c[1], "order": c[3], "explicit": {f: o["kind"] for f, o in c[2].items()},
                    "auto": {en: (o["kind"], o["format"]) for en, o in c[4].items()}, "model": pred.get((c[0], c[1]))})
    ctx.coverage.update({
        "rule": "texts written by the 7 writers from generated non-empty structures (isotropic/anisotropic, several cells) x file name "
                "{none, matching extension, every other registered extension, no extension, sub-directory} x entry points {loadStructure, "
                "Structure.read, Structure.readStr, Structure(filename=), parser.parse, parser.parseLines, parser.parseFile}; plus non-structure "
                "text, corrupted documents and token soup. Distinct by (origin, hinted?, entry point, outcome, reported format).",
        "texts": len(tasks), "auto_calls": n_entries, "loop_model_cases": len(pred), "loop_model_mismatches": len(mism),
        "rejection_table": {"%s>%s:%s" % k: v for k, v in sorted(table.items())},
        "none_result_cases": none_stop, "violation_keys": seen_v, "exhaustive": False,
    })


def replay(ctx, case):
    c = case.get("case", case)
    tmpdir = tempfile.mkdtemp(prefix="c12r_")
    try:
        ents = auto_entries(c["text"], c.get("hint"), tmpdir)
    finally:
        shutil.rmtree(tmpdir, ignore_errors=True)
    o = ents.get(c.get("entry"), {})
    ctx.count(("replay", str(o.get("kind"))))
    ctx.count(("replay", "ran"))
    ctx.log("replay: %s hint %r -> %s %s %s" % (c.get("entry"), c.get("hint"), o.get("kind"), o.get("format"), str(o.get("msg", ""))[:120]))
    if o.get("kind") != c.get("outcome", {}).get("kind"):
        ctx.log("  (outcome differs from the recorded one: %s)" % c.get("outcome", {}).get("kind"))
    elif o.get("kind", "").startswith("escape:") or o.get("kind") in ("StructureFormatError",):
        ctx.violation("replayed: " + case.get("what", ""), dict(c), key=case.get("key"))
    ctx.obligation("replay-executed", True)
