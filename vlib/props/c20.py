"""C20 - the transtru command converts exactly as the library does and reports failures.

Proof: Props/C20.v (theorems about `main cli_spec`, cli_spec regenerated from transtru.py:main by translate/c20_cli.py).
Correspondence: the Coq model, fed the library's actual in-process outcomes as oracle, against the real program run in
subprocesses (stdout, stderr, status), plus runs of the real `main` with a fault-injected library for the handler table.
Finder: the property text checked directly on the subprocess results.
"""
import base64
import concurrent.futures
import contextlib
import io
import json
import os
import re
import subprocess
import sys
import warnings

from translate import c20_cli
from vlib import core

TARGETS = ["Gen/C20_CliSpec.vo", "Props/C20.vo", "Proofs/C20_Pinned.vo"]
PY = "/venv/bin/python"
DOCUMENTED = ("OSError", "StructureFormatError", "NotImplementedError", "UnicodeDecodeError")
WORKERS = 16
TB = b"Traceback (most recent call last):"
WARN_RE = re.compile(rb"^[^\n]*:\d+: \w*Warning: [^\n]*\n(?:  [^\n]*\n)?", re.M)

FAULT_CODE = r'''
import sys, json, os, builtins
spec = json.loads(os.environ["C20_FAULT"])
from diffpy.structure import Structure
import diffpy.structure.structureerrors as se
def mk(d):
    cls = getattr(se, d["type"], None) or getattr(builtins, d["type"])
    if d["type"] == "UnicodeDecodeError":
        return cls("utf-8", b"\xff", 0, 1, d["msg"])
    if "errno" in d:
        return cls(d["errno"], d["msg"])
    return cls(d["msg"])
def patch(name, what):
    def f(self, *a, **k):
        if what.get("noise"):
            sys.stdout.write(what["noise"])
        if what.get("raise"):
            raise mk(what["raise"])
        return what.get("ret")
    setattr(Structure, name, f)
for name in ("read", "readStr", "writeStr"):
    if name in spec:
        patch(name, spec[name])
sys.argv = ["transtru"] + sys.argv[1:]
from diffpy.structure.apps import transtru
transtru.main()
'''


# ----------------------------------------------------------------------------- running the real program
def child_env(extra=None):
    env = {"PYTHONPATH": os.path.join(core.REPO, "src"), "PYTHONHASHSEED": "0", "PYTHONDONTWRITEBYTECODE": "1",
           "PATH": os.environ.get("PATH", "/usr/bin:/bin"), "HOME": os.environ.get("HOME", "/root"), "LANG": "C.UTF-8"}
    if extra:
        env.update(extra)
    return env


def run_cli(case, tmp):
    if case.get("fault") is not None:
        cmd = [PY, "-c", FAULT_CODE] + case["argv"]
        env = child_env({"C20_FAULT": json.dumps(case["fault"])})
    else:
        cmd = [PY, "-m", "diffpy.structure.apps.transtru"] + case["argv"]
        env = child_env()
    p = subprocess.run(cmd, cwd=tmp, env=env, input=case.get("stdin", b""), stdout=subprocess.PIPE,
                       stderr=subprocess.PIPE, timeout=120)
    return p.returncode, p.stdout, p.stderr


def canon_stderr(err):
    """(stderr with a traceback replaced by the model's marker, exception name or None, #warning lines stripped)."""
    err2, nwarn = WARN_RE.subn(b"", err)
    i = err2.find(TB)
    if i < 0 or (i > 0 and err2[i - 1:i] != b"\n"):
        return err2, None, nwarn
    last = err2.rstrip(b"\n").split(b"\n")[-1]
    name = last.split(b":")[0].split(b".")[-1].strip()
    return err2[:i] + TB + b"\n" + name + b"\n", name.decode("latin-1"), nwarn


# ----------------------------------------------------------------------------- the library, in process (oracle)
def kind_of(e):
    from diffpy.structure.structureerrors import StructureFormatError
    if isinstance(e, OSError):
        return "KIOError"
    if isinstance(e, StructureFormatError):
        return "KStructureFormatError"
    if isinstance(e, NotImplementedError):
        return "KNotImplementedError"
    if isinstance(e, UnicodeDecodeError):
        return "KUnicodeDecodeError"
    if isinstance(e, IndexError):
        return "KIndexError"
    if isinstance(e, ValueError):
        return "KValueError"
    return "KOther"


def exc_record(e):
    return {"kind": kind_of(e), "type": type(e).__name__, "str": str(e),
            "strerror": (e.strerror if isinstance(e, OSError) else None), "oserror": isinstance(e, OSError),
            "documented": isinstance(e, OSError) or kind_of(e) in ("KStructureFormatError", "KNotImplementedError", "KUnicodeDecodeError")}


def call_quietly(fn):
    """Run fn() capturing what it prints on sys.stdout; -> (noise, value, exception record or None)."""
    buf = io.StringIO()
    val, exc = None, None
    with warnings.catch_warnings():
        warnings.simplefilter("ignore")
        with contextlib.redirect_stdout(buf):
            try:
                val = fn()
            except Exception as e:  # the oracle reports whatever the library raises
                exc = exc_record(e)
    return buf.getvalue(), val, exc


def library_outcome(tmp, infmt, outfmt, file, stdin):
    """What Structure().read(file, infmt) / readStr(stdin, infmt) followed by writeStr(outfmt) does, in this process."""
    from diffpy.structure import Structure
    s = Structure()
    cwd = os.getcwd()
    os.chdir(tmp)
    try:
        if file == "-":
            text = stdin.decode("utf-8", "surrogateescape")
            n1, _, e1 = call_quietly(lambda: s.readStr(text, infmt))
        else:
            n1, _, e1 = call_quietly(lambda: s.read(file, infmt))
        out = {"noise_read": n1, "read_exc": e1, "noise_write": "", "write_exc": None, "text": None}
        if e1 is None:
            n2, text, e2 = call_quietly(lambda: s.writeStr(outfmt))
            out.update({"noise_write": n2, "write_exc": e2, "text": text})
    finally:
        os.chdir(cwd)
    return out


def usage_texts():
    from diffpy.structure.apps import transtru
    old = sys.argv
    sys.argv = ["transtru.py"]     # python -m sets argv[0] to the path of transtru.py; usage() takes its basename
    try:
        out = {}
        for name, fn in (("usage", lambda: transtru.usage()), ("brief", lambda: transtru.usage("brief")),
                         ("version", lambda: transtru.version())):
            noise, _, exc = call_quietly(fn)
            if exc:
                raise RuntimeError("transtru.%s() failed in process: %s" % (name, exc))
            out[name] = noise
    finally:
        sys.argv = old
    return out


# ----------------------------------------------------------------------------- cases
def b(s):
    return s.encode("utf-8", "surrogateescape") if isinstance(s, str) else s


class Corpus:
    """Valid documents per input format (tests/testdata, checked with the library) + derived files in tmp."""

    TESTDATA = {"cif": ["PbTe.cif", "TeI.cif", "graphite.cif", "Ni_ref.cif", "customsg.cif", "curlybrackets.cif"],
                "pdb": ["arginine.pdb"], "discus": ["Ni-discus.stru"],
                "pdffit": ["Ni.stru", "CdSe_bulk.stru", "ZnSb_RT_Q28X_VM_20_fxiso.rstr", "Ni_prim123.stru"],
                "xyz": ["bucky.xyz", "bucky-plain.xyz"], "rawxyz": ["bucky-raw.xyz", "hexagon-raw.xyz", "hexagon-raw.xy"],
                "xcfg": ["BubbleRaftShort.xcfg"]}

    def __init__(self, ctx, fin, fout):
        from diffpy.structure import Structure
        self.tmp = ctx.tmp
        self.docs = {}
        td = os.path.join(core.REPO, "tests", "testdata")
        n = 0
        for fmt in fin:
            if fmt == "auto":
                continue
            for name in self.TESTDATA.get(fmt, []):
                p = os.path.join(td, name)
                if not os.path.exists(p):
                    continue
                data = open(p, "rb").read()
                _, _, exc = call_quietly(lambda: Structure().read(p, fmt))
                if exc is None:
                    n += 1
                    self.docs.setdefault(fmt, []).append(self.put("d%d_%s" % (n, name), data))
        # formats with little test data: write more with the library itself
        src = {}
        for fmt in ("xyz", "pdffit", "cif"):
            if fmt in self.docs:
                s = Structure()
                call_quietly(lambda: s.read(os.path.join(self.tmp, self.docs[fmt][0]), fmt))
                src[fmt] = s
        for fmt in fin:
            if fmt == "auto" or fmt not in fout:
                continue
            for sf, s in src.items():
                if len(self.docs.get(fmt, [])) >= 3:
                    break
                noise, text, exc = call_quietly(lambda: s.writeStr(fmt))
                if exc is None and text:
                    name = self.put("w_%s_from_%s.%s" % (fmt, sf, fmt), b(text))
                    _, _, exc2 = call_quietly(lambda: Structure().read(os.path.join(self.tmp, name), fmt))
                    if exc2 is None:
                        self.docs.setdefault(fmt, []).append(name)
        self.docs["auto"] = [self.docs[f][0] for f in ("cif", "xyz", "pdffit", "pdb", "discus", "xcfg") if self.docs.get(f)]
        missing = [f for f in fin if not self.docs.get(f)]
        if missing:
            raise RuntimeError("no valid document for input format(s) %s" % missing)
        self.special = {
            "molecule": self.put("molecule.stru", b"title x\nspcgr P1\ncell 1,1,1,90,90,90\nmolecule\natoms\nNI 0 0 0 0.1\n"),
            "binary": self.put("binary.dat", b"2\n\nC 0 0 \xff\xfe 0\nC 1 1 1\n"),
            "garbage": self.put("garbage.txt", b"this is no structure file\nat all\n"),
            "empty": self.put("empty.txt", b""),
        }
        os.mkdir(os.path.join(self.tmp, "adir"))
        os.symlink("loop_b", os.path.join(self.tmp, "loop_a"))
        os.symlink("loop_a", os.path.join(self.tmp, "loop_b"))
        self.unreadable = [("notdir", os.path.join(self.docs["xyz"][0], "sub")), ("symloop", "loop_a")]
        self.chmod_note = None
        locked = self.put("locked.xyz", self.data(self.docs["xyz"][0]))
        os.chmod(os.path.join(self.tmp, locked), 0)
        try:
            open(os.path.join(self.tmp, locked), "rb").close()
            self.chmod_note = "chmod 000 leaves the file readable (running as uid %d): permission case replaced by ENOTDIR/ELOOP paths" % os.geteuid()
        except OSError:
            self.unreadable.append(("chmod000", locked))

    def put(self, name, data):
        with open(os.path.join(self.tmp, name), "wb") as f:
            f.write(data)
        return name

    def data(self, name):
        return open(os.path.join(self.tmp, name), "rb").read()

    def wrong_for(self, fmt):
        """documents of other formats that `fmt` should refuse"""
        order = {"cif": ["xyz", "pdffit"], "pdb": ["xyz", "cif"], "discus": ["xyz", "cif"], "pdffit": ["xyz", "cif"],
                 "xyz": ["cif", "pdffit"], "rawxyz": ["cif", "pdffit"], "xcfg": ["xyz", "cif"], "auto": []}
        return [self.docs[f][0] for f in order.get(fmt, []) if self.docs.get(f)] + [self.special["garbage"]]


def conv_case(kind, infmt, outfmt, file, stdin=b"", tag="", extra_args=()):
    return {"kind": kind, "infmt": infmt, "outfmt": outfmt, "file": file, "stdin": stdin, "tag": tag,
            "argv": ["%s..%s" % (infmt, outfmt), file] + list(extra_args), "fault": None}


def corrupt(rng, data):
    lines = data.split(b"\n")
    k = rng.randrange(4)
    if k == 0:
        return b"\n".join(lines[:rng.randrange(len(lines) + 1)]), "truncate-lines"
    if k == 1:
        return data[:rng.randrange(len(data) + 1)], "truncate-bytes"
    if k == 2 and len(lines) > 1:
        i = rng.randrange(len(lines))
        return b"\n".join(lines[:i] + lines[i + 1:]), "delete-line"
    i = rng.randrange(len(lines))
    return b"\n".join(lines[:i] + [lines[i], lines[i]] + lines[i + 1:]), "duplicate-line"


def build_cases(ctx, corpus, fin, fout):
    rng = ctx.rng
    thorough = ctx.tier == "thorough"
    cases = []
    pairs = [(i, o) for i in fin for o in fout]
    # every format pair on a valid file
    for i, o in pairs:
        docs = corpus.docs[i] if thorough else [corpus.docs[i][(fin.index(i) + fout.index(o)) % len(corpus.docs[i])]]
        for d in docs:
            cases.append(conv_case("valid-file", i, o, os.path.join(ctx.tmp, d) if rng.random() < 0.5 else d, tag=d))
    # the other input situations: all pairs (thorough) or each input format with a rotating output format (quick)
    sel = pairs if thorough else [(i, fout[(k * 3 + 1) % len(fout)]) for k, i in enumerate(fin)]
    for i, o in sel:
        d0 = corpus.docs[i][0]
        wrong = corpus.wrong_for(i)
        for w in (wrong if thorough else wrong[:1]):
            cases.append(conv_case("wrong-format-file", i, o, w, tag=w))
        cases.append(conv_case("missing-file", i, o, "no_such_file.dat"))
        for tag, path in (corpus.unreadable if thorough else corpus.unreadable[:1] + corpus.unreadable[2:]):
            cases.append(conv_case("unreadable-file", i, o, path, tag=tag))
        cases.append(conv_case("directory", i, o, "adir"))
        cases.append(conv_case("stdin-valid", i, o, "-", stdin=corpus.data(d0), tag=d0))
        cases.append(conv_case("stdin-wrong-format", i, o, "-", stdin=corpus.data(wrong[-1]), tag=wrong[-1]))
        cases.append(conv_case("binary-file", i, o, corpus.special["binary"]))
        if thorough:
            cases.append(conv_case("empty-file", i, o, corpus.special["empty"]))
            cases.append(conv_case("stdin-empty", i, o, "-", stdin=b""))
            cases.append(conv_case("extra-argument", i, o, d0, tag=d0, extra_args=["ignored", "-h"]))
    # structures without atoms from standard input (empty title): the written text may end in a blank line
    atomless = {"xyz": b"0\n\n", "rawxyz": b"", "pdb": b"END\n",
                "discus": b"title\nspcgr   P1\ncell    1.000000, 1.000000, 1.000000, 90.000000, 90.000000, 90.000000\nncell   1, 1, 1, 0\natoms\n"}
    for i, data in atomless.items():
        if i in fin:
            for o in (fout if thorough else ["xyz", "rawxyz", "pdb"]):
                if o in fout:
                    cases.append(conv_case("stdin-valid", i, o, "-", stdin=data, tag="atomless " + i))
    cases.append(conv_case("unsupported-record", "discus", "xyz", corpus.special["molecule"]))
    cases.append(conv_case("unsupported-record", "discus", "cif", "-", stdin=corpus.data(corpus.special["molecule"])))
    cases.append(conv_case("unsupported-record", "auto", "xyz", corpus.special["molecule"]))
    cases.append(conv_case("empty-file", "rawxyz", "xcfg", corpus.special["empty"]))
    cases.append(conv_case("extra-argument", "xyz", "xyz", corpus.docs["xyz"][0], extra_args=["extra"]))
    # single-fault corruptions of valid documents
    ncorr = 20 if thorough else 1
    for i, o in (pairs if thorough else sel):
        for k in range(ncorr):
            d = rng.choice(corpus.docs[i])
            data, how = corrupt(rng, corpus.data(d))
            name = corpus.put("c_%s_%s_%d.dat" % (i, o, k), data)
            via_stdin = rng.random() < 0.3
            cases.append(conv_case("corrupted-" + how, i, o, "-" if via_stdin else name, stdin=data if via_stdin else b"",
                                   tag="%s#%d" % (d, k)))
    # malformed command lines
    x = corpus.docs["xyz"][0]
    mal = [[], ["-h"], ["--help"], ["-V"], ["--version"], ["--he"], ["--ver"], ["-hV"], ["-Vh"], ["-h", "xyz..cif", x],
           ["-x"], ["-hx"], ["--foo"], ["--"], ["--", "-h"], ["--", "xyz..cif", x], ["--help=1"], ["--=x"], ["-"],
           ["xyz"], ["xyzcif", x], ["xyz.cif", x], ["..", x], ["..xyz", x], ["xyz..", x], ["xyz...cif", x], ["xyz..cif..pdb", x],
           ["foo..xyz", x], ["xyz..foo", x], ["xyz..auto", x], ["auto..auto", x], ["XYZ..cif", x], ["xyz ..cif", x], ["xyz..cif"],
           ["auto..cif"], ["xyz..cif", "-h"], ["xyz..cif", x, "extra", "more"], ["-", x], ["", x], [" "]]
    for argv in mal:
        c = {"kind": "command-line", "argv": argv, "stdin": b"", "fault": None, "tag": " ".join(argv), "infmt": None,
             "outfmt": None, "file": None}
        a = argv[1:] if argv and argv[0] == "--" else argv
        if a and not (a[0].startswith("-") and a[0] != "-" and a is argv) and a[0].count("..") >= 1:
            i, o = a[0].split("..", 1)
            if i in fin and o in fout and len(a) > 1:
                c["infmt"], c["outfmt"], c["file"] = i, o, a[1]
        cases.append(c)
    # the real main with a fault-injected library (handler table)
    exs = [{"type": "IndexError", "msg": "list index out of range"}, {"type": "OSError", "errno": 13, "msg": "Permission denied"},
           {"type": "OSError", "msg": "plain message without errno"}, {"type": "StructureFormatError", "msg": "7: bad line"},
           {"type": "NotImplementedError", "msg": "record not implemented"}, {"type": "UnicodeDecodeError", "msg": "invalid start byte"},
           {"type": "ValueError", "msg": "could not convert"}, {"type": "KeyError", "msg": "k"}, {"type": "TypeError", "msg": "t"},
           {"type": "StopIteration", "msg": ""}, {"type": "ZeroDivisionError", "msg": "float division by zero"},
           {"type": "LatticeError", "msg": "singular"}, {"type": "FileNotFoundError", "errno": 2, "msg": "No such file or directory"}]
    for e in exs:
        for site in ("read", "readStr", "writeStr"):
            if not thorough and site == "readStr" and e["type"] not in ("IndexError", "StructureFormatError"):
                continue
            file = "-" if site == "readStr" else x
            fault = {site: {"raise": e}}
            if site == "writeStr":
                fault["read"] = {}
            cases.append({"kind": "fault-injection", "argv": ["xyz..cif", file], "stdin": b"2\n\nC 0 0 0\nC 1 1 1\n", "fault": fault,
                          "tag": "%s raises %s" % (site, e["type"]), "infmt": "xyz", "outfmt": "cif", "file": file})
    cases.append({"kind": "fault-injection", "argv": ["xyz..cif", x], "stdin": b"", "tag": "noisy read, noisy write",
                  "fault": {"read": {"noise": "NOISE-R\n"}, "writeStr": {"noise": "NOISE-W\n", "ret": "TEXT\n"}},
                  "infmt": "xyz", "outfmt": "cif", "file": x})
    cases.append({"kind": "fault-injection", "argv": ["xyz..cif"], "stdin": b"", "tag": "no file, library would raise",
                  "fault": {"read": {"raise": exs[0]}}, "infmt": "xyz", "outfmt": "cif", "file": None})
    for n, c in enumerate(cases):
        c["id"] = n
    return cases


# ----------------------------------------------------------------------------- oracle per case
def fault_exc(d):
    import builtins
    import diffpy.structure.structureerrors as se
    cls = getattr(se, d["type"], None) or getattr(builtins, d["type"])
    if d["type"] == "UnicodeDecodeError":
        e = cls("utf-8", b"\xff", 0, 1, d["msg"])
    elif "errno" in d:
        e = cls(d["errno"], d["msg"])
    else:
        e = cls(d["msg"])
    return exc_record(e)


def oracle(ctx, case):
    """The library's behaviour for this case (in process, or as injected)."""
    if case["file"] is None or case["infmt"] is None:
        return None
    if case["fault"] is not None:
        f = case["fault"]
        site = "readStr" if case["file"] == "-" else "read"
        r = f.get(site, {})
        out = {"noise_read": r.get("noise", ""), "read_exc": fault_exc(r["raise"]) if r.get("raise") else None,
               "noise_write": "", "write_exc": None, "text": None, "injected": True}
        if out["read_exc"] is None:
            w = f.get("writeStr", {})
            out.update({"noise_write": w.get("noise", ""), "write_exc": fault_exc(w["raise"]) if w.get("raise") else None,
                        "text": w.get("ret") if not w.get("raise") else None})
        return out
    return library_outcome(ctx.tmp, case["infmt"], case["outfmt"], case["file"], case["stdin"])


# ----------------------------------------------------------------------------- the property text on the real program
def one_line(err):
    return len(err) > 1 and err.endswith(b"\n") and b"\n" not in err[:-1]


def judge(ctx, case, res, orc, fin, fout):
    """Property text, clause by clause, on the real program's (status, stdout, stderr).  Returns list of (key, what)."""
    rc, out, err = res
    err_c, tbname, nwarn = canon_stderr(err)
    probs = []
    kind = case["kind"]
    if kind == "fault-injection":
        return probs                                     # correspondence only
    argv = case["argv"]
    if kind == "command-line":
        a = argv
        if a and a[0] == "--":
            a = a[1:]
        elif a and a[0].startswith("-") and a[0] != "-":
            return probs                                 # option handling: correspondence only
        if not a:
            return probs                                 # usage case
        spec = a[0].split("..", 1)
        bad = len(spec) != 2 or spec[0] not in fin or spec[1] not in fout
        if bad or len(a) < 2:
            what = "malformed format specification" if bad else "missing file argument"
            if rc != 2 or out != b"" or not one_line(err_c) or tbname:
                probs.append(("cli:%s:%s" % (what.replace(" ", "-"), " ".join(argv)),
                              "%s must give status 2, one line on stderr, empty stdout; got status %d, stdout %r, stderr %r"
                              % (what, rc, out[:80], err[-200:])))
            return probs
        if orc is None:
            return probs
    if orc is None:
        return probs
    exc = orc["read_exc"] or orc["write_exc"]
    noise = b(orc["noise_read"]) + b(orc["noise_write"])
    where = "%s..%s %s (%s)" % (case["infmt"], case["outfmt"], case["file"], kind)
    if exc is None:
        want = noise + b(orc["text"])
        if rc != 0 or out != want or err_c != b"":
            probs.append(("cli:conversion-differs:%s" % where,
                          "library converts but transtru gives status %d, stdout %s the library text, stderr %r"
                          % (rc, "==" if out == want else "!=", err[-200:])))
        return probs
    if tbname:
        if not exc["documented"] and tbname == exc["type"]:
            if exc["type"] == "YappsSyntaxError" and case["infmt"] in ("cif", "auto"):
                probs.append(("dep-C13-yapps:%s" % case["infmt"], "traceback: %s escapes the library (%s)" % (exc["type"], where)))
            elif orc["read_exc"] is None:
                probs.append(("dep-write-escapes:%s:%s" % (exc["type"], case["outfmt"]),
                              "traceback: %s escapes the library's writeStr (%s)" % (exc["type"], where)))
            else:
                probs.append(("dep-C13-escapes:%s" % exc["type"], "traceback: %s escapes the library (%s)" % (exc["type"], where)))
        else:
            probs.append(("cli:traceback:%s:%s" % (tbname, where),
                          "transtru ends in a traceback (%s) although the library raised %s" % (tbname, exc["type"])))
        return probs
    if not exc["documented"]:
        probs.append(("cli:misreport:%s:%s" % (exc["type"], where),
                      "library raised %s but transtru reports status %d, stderr %r" % (exc["type"], rc, err[-200:])))
        return probs
    if rc != 1:
        probs.append(("cli:status:%s" % where, "input error (%s) must give status 1, got %d; stderr %r" % (exc["type"], rc, err[-200:])))
    if out != b"":
        if out == noise and b"SYNTAX ERROR" in out:
            probs.append(("pycifrw-stdout-banner:%s" % case["infmt"], "stdout carries PyCifRW's syntax error banner (%s)" % where))
        else:
            probs.append(("cli:stdout-not-empty:%s" % where, "stdout must be empty on failure, got %r" % out[:120]))
    if not one_line(err_c):
        msg = exc["strerror"] if exc["oserror"] else exc["str"]
        if msg and "\n" in msg and err_c.count(b"\n") == msg.count("\n") + 1:
            probs.append(("multiline-message:%s:%s" % (case["infmt"], exc["type"]),
                          "the library's message has %d lines and is printed as is (%s)" % (msg.count("\n") + 1, where)))
        else:
            probs.append(("cli:stderr-not-one-line:%s" % where, "stderr must hold exactly one line, got %r" % err[-300:]))
    return probs


# ----------------------------------------------------------------------------- the Coq model on the same cases
def coq_bytes(data):
    """Coq term of type string for arbitrary bytes."""
    if isinstance(data, str):
        data = b(data)
    parts, cur = [], []
    for ch in data:
        if 32 <= ch < 127 or ch == 10:
            cur.append('""' if ch == 34 else chr(ch))
        else:
            if cur:
                parts.append('"%s"' % "".join(cur))
                cur = []
            parts.append("(bt %d)" % ch)
    if cur or not parts:
        parts.append('"%s"' % "".join(cur))
    return parts[0] if len(parts) == 1 else "(" + " ++ ".join(parts) + ")"


def coq_list(items):
    return "[" + "; ".join(items) + "]"


def coq_exc(e):
    kind = e["kind"] if e["kind"] != "KOther" else "(KOther %s)" % coq_bytes(e["type"])
    se_ = "None" if e["strerror"] is None else "(Some %s)" % coq_bytes(e["strerror"])
    return "(mkexn %s %s %s)" % (kind, coq_bytes(e["str"]), se_)


def tokens_for(case, orc, texts):
    """[(actual bytes, token)] used to shorten long texts identically on both sides (the model only copies them)."""
    t = [(b(texts["usage"]), b"<<USAGE>>"), (b(texts["brief"]), b"<<BRIEF>>"), (b(texts["version"]), b"<<VERSION>>")]
    if orc:
        for key, tok in (("text", b"<<TEXT>>"), ("noise_read", b"<<NOISE-READ>>"), ("noise_write", b"<<NOISE-WRITE>>")):
            v = orc.get(key)
            if v:
                t.append((b(v), tok))
    return sorted(t, key=lambda p: -len(p[0]))


def shorten(data, toks):
    for actual, tok in toks:
        if len(actual) > len(tok):
            data = data.replace(actual, tok)
    return data


def tok(v, toks):
    v = b(v or "")
    for actual, t in toks:
        if v == actual and len(actual) > len(t):
            return t
    return v


def coq_case(case, res, orc, texts):
    rc, out, err = res
    toks = tokens_for(case, orc, texts)
    err_c, tbname, _ = canon_stderr(err)
    obs = "(mkres %s %s %d%%Z %s)" % (coq_bytes(shorten(out, toks)), coq_bytes(shorten(err_c, toks)), rc,
                                      "None" if tbname is None else "(Some %s)" % coq_bytes(tbname))
    file = case["file"] if case["file"] is not None else "<no file>"
    content = "<<STDIN>>" if file == "-" else "<<CONTENT>>"
    world = "(mkworld \"<<STDIN>>\" %s \"<<USAGE>>\" \"<<BRIEF>>\" \"<<VERSION>>\")"
    if orc is None:
        w = world % "(fs_one \"<no file>\" (FsFile \"\"))"
        lib = "(lib_const (\"\", Raise (other \"UnexpectedLibraryCall\")) (\"\", Raise (other \"UnexpectedLibraryCall\")))"
    else:
        rexc = orc["read_exc"]
        if rexc is not None and rexc["oserror"] and file != "-" and not orc.get("injected"):
            entry = "(FsError %s %s)" % (coq_bytes(rexc["str"]), coq_bytes(rexc["strerror"] if rexc["strerror"] is not None else "None"))
        else:
            entry = "(FsFile \"<<CONTENT>>\")"
        w = world % ("(fs_one %s %s)" % (coq_bytes(file), entry))
        rd = "(%s, %s)" % (coq_bytes(tok(orc["noise_read"], toks)), "Ok \"<<STRUCTURE>>\"" if rexc is None else "Raise %s" % coq_exc(rexc))
        wexc = orc["write_exc"]
        wr = "(%s, %s)" % (coq_bytes(tok(orc["noise_write"], toks)),
                           "Ok %s" % coq_bytes(tok(orc["text"], toks)) if wexc is None else "Raise %s" % coq_exc(wexc))
        lib = "(lib_one %s %s %s %s \"<<STRUCTURE>>\" %s %s)" % (coq_bytes(file), coq_bytes(content), coq_bytes(case["infmt"]), rd,
                                                              coq_bytes(case["outfmt"]), wr)
    argv = coq_list(coq_bytes(a) for a in case["argv"])
    return "(%d%%Z, main cli_spec %s %s %s, %s)" % (case["id"], argv, w, lib, obs)


CASES_HEAD = """From Coq Require Import List ZArith Bool Ascii String.
From DS Require Import Model.C20_Cli Gen.C20_CliSpec.
Import ListNotations.
Open Scope string_scope.
Definition bt (n : nat) : string := String (ascii_of_nat n) "".
Definition differs (c : Z * result * result) : bool := negb (result_eqb (snd (fst c)) (snd c)).
"""


def run_model(ctx, cases, results, oracles, texts):
    """Evaluate the model on every case; returns {case id: model result text} for the cases that differ."""
    chunks, cur = [], []
    for c in cases:
        cur.append("Definition c%d := %s." % (c["id"], coq_case(c, results[c["id"]], oracles[c["id"]], texts)))
        if len(cur) == 250:
            chunks.append(cur)
            cur = []
    if cur:
        chunks.append(cur)
    text = CASES_HEAD
    for ch in chunks:
        text += "\n".join(ch) + "\n"
    ids = [c["id"] for c in cases]
    text += "Definition all_cases := %s.\n" % coq_list("c%d" % i for i in ids)
    text += "Eval vm_compute in (map (fun c => fst (fst c)) (filter differs all_cases)).\n"
    rc, out = ctx.coq_eval("c20_cases", text)
    if rc != 0:
        return None, out[-1500:]
    m = re.search(r"=\s*\[(.*?)\]\s*:\s*list Z", out, re.S)
    if not m:
        return None, "cannot parse coqc output: " + out[-500:]
    bad = [int(x.replace("%Z", "").strip("() ")) for x in m.group(1).split(";") if x.strip()]
    detail = {}
    if bad:
        text2 = CASES_HEAD
        for i in bad[:8]:
            c = next(c for c in cases if c["id"] == i)
            text2 += "Definition c%d := %s.\nEval vm_compute in (snd (fst c%d)).\n" % (i, coq_case(c, results[i], oracles[i], texts), i)
        rc2, out2 = ctx.coq_eval("c20_diff", text2)
        blocks = re.split(r"\n\s*=\s", "\n" + out2)
        for i, blk in zip(bad[:8], blocks[1:]):
            detail[i] = " ".join(blk.split())[:600]
    return (bad, detail), ""


# ----------------------------------------------------------------------------- driver
def registry_matches_live(ctx, fin, fout):
    from diffpy.structure.parsers import inputFormats, outputFormats
    ok = list(inputFormats()) == fin and list(outputFormats()) == fout
    ctx.obligation("correspondence:registry-vs-live", ok, "" if ok else "translator %s/%s, live %s/%s" % (fin, fout, inputFormats(), outputFormats()))
    return list(inputFormats()), list(outputFormats())


def describe(case):
    d = {"argv": case["argv"], "kind": case["kind"], "tag": case.get("tag", "")}
    if case.get("stdin"):
        d["stdin_b64"] = base64.b64encode(case["stdin"]).decode()
    if case.get("fault") is not None:
        d["fault"] = case["fault"]
    return d


def replay_payload(ctx, case):
    d = describe(case)
    files = {}
    f = case.get("file")
    if f and f != "-":
        p = f if os.path.isabs(f) else os.path.join(ctx.tmp, f)
        if os.path.isfile(p):
            try:
                files[os.path.basename(p)] = base64.b64encode(open(p, "rb").read()).decode()
                d["argv"] = [a if a != f else os.path.basename(p) for a in case["argv"]]
            except OSError:
                pass
    d["files_b64"] = files
    d["command"] = "cd <dir with the files>; PYTHONPATH=%s/src %s -m diffpy.structure.apps.transtru %s" % (
        core.REPO, PY, " ".join("'%s'" % a for a in d["argv"]))
    return d


def run(ctx, only=None):
    ctx.level = "proof"
    ctx.trusted += ["Coq 8.16.1 kernel + vm_compute (no native_compute)",
                    "translate/c20_cli.py (fail-closed ast translator of transtru.py:main and of the parser registry)",
                    "Model/C20_Cli.v hand models of getopt.getopt, str.split, %s formatting, print, sys.exit, try/except matching "
                    "(compared with the real program on every run)",
                    "oracles: the library (read/readStr/writeStr), the file system and usage()/version() are inputs of the model"]
    ctx.assumptions += ["arguments and library messages are newline-free for the one-line clauses (witnesses show this is needed)",
                        "the library raises only OSError / StructureFormatError / NotImplementedError / UnicodeDecodeError for the "
                        "no-traceback clause (other escapes are C13's subject; witness theorem shows this is needed)",
                        "`transtru` without arguments is the usage case (brief usage, status 0), not the missing-file-argument case",
                        "numpy RuntimeWarning lines on stderr are stripped before comparing (counted in coverage.warning_lines_stripped)",
                        "stdout/stderr/status are observed through pipes of a subprocess with LANG=C.UTF-8"]
    from diffpy.structure.parsers import inputFormats, outputFormats
    fin, fout = list(inputFormats()), list(outputFormats())
    corpus = Corpus(ctx, fin, fout)
    if corpus.chmod_note:
        ctx.notes.append(corpus.chmod_note)
    texts = usage_texts()
    cases = only(corpus) if only else build_cases(ctx, corpus, fin, fout)
    ctx.log("%d cases, running the real program (%d workers)" % (len(cases), WORKERS))
    results = {}
    with concurrent.futures.ThreadPoolExecutor(WORKERS) as ex:
        futs = {ex.submit(run_cli, c, ctx.tmp): c for c in cases}
        for f in concurrent.futures.as_completed(futs):
            results[futs[f]["id"]] = f.result()
    ctx.log("subprocesses done; library oracle in process")
    oracles = {c["id"]: oracle(ctx, c) for c in cases}
    ctx.log("oracle done")
    # ---- finder: the property text on the real program
    nviol, nwarn, kinds = 0, 0, {}
    for c in cases:
        nwarn += canon_stderr(results[c["id"]][2])[2]
        key = (c["kind"], c.get("infmt"), c.get("outfmt"), c.get("tag"), tuple(c["argv"][:1]) if c["kind"] == "command-line" else None,
               json.dumps(c.get("fault"), sort_keys=True) if c.get("fault") else None)
        ctx.count(key)
        kinds[c["kind"]] = kinds.get(c["kind"], 0) + 1
        for k, what in judge(ctx, c, results[c["id"]], oracles[c["id"]], fin, fout):
            nviol += 1
            ctx.violation("transtru %s: %s" % (" ".join(c["argv"]), what), replay_payload(ctx, c), key=k)
    for c in cases[:3] + [c for c in cases if c["kind"] in ("command-line", "fault-injection", "wrong-format-file")][:3]:
        rc, out, err = results[c["id"]]
        ctx.sample({"argv": c["argv"], "kind": c["kind"], "status": rc, "stdout_bytes": len(out), "stderr": err.decode("latin-1")[-160:]})
    # ---- proof + model correspondence (Gen is regenerated from the current source inside the lock)
    with core.BuildLock():
        ok = ctx.regen("c20_cli", c20_cli.generate)
        if ok:
            ctx.coq(TARGETS, theorems_in={"Props/C20"})
            gfin, gfout = c20_cli.registry()
            registry_matches_live(ctx, gfin, gfout)
            if os.path.exists(os.path.join(core.COQ, "Gen", "C20_CliSpec.vo")):
                got, why = run_model(ctx, cases, results, oracles, texts)
                if got is None:
                    ctx.obligation("correspondence:model-vs-cli", False, why)
                else:
                    bad, detail = got
                    msg = ""
                    if bad:
                        c = next(c for c in cases if c["id"] == bad[0])
                        rc, out, err = results[c["id"]]
                        msg = "%d of %d cases differ; first: transtru %s -> real status %d stdout %r stderr %r; model %s" % (
                            len(bad), len(cases), " ".join(c["argv"]), rc, out[:60], err[-120:], detail.get(bad[0], "?"))
                    ctx.obligation("correspondence:model-vs-cli", not bad, msg)
                    ctx.coverage["model_cases_agreeing"] = len(cases) - len(bad)
    try:
        ctx.samples.append({"decision_sites_from_source": c20_cli.summary()[:30]})
    except core.TranslatorRefusal:
        pass
    ctx.coverage.update({
        "rule": "one case per (situation kind, input format, output format, document/corruption or literal command line or injected fault); "
                "situations: valid file, wrong-format file, missing, unreadable (ENOTDIR/ELOOP[/EACCES]), directory, stdin valid/wrong/empty, "
                "undecodable bytes, unsupported record, empty file, extra arguments, seeded single-fault corruptions, malformed command lines, "
                "fault-injected library; each run in a subprocess and compared with (a) the property text and (b) the Coq model fed the "
                "library's in-process outcome",
        "cases_by_kind": kinds, "format_pairs": len(fin) * len(fout), "finder_violations_incl_known": nviol,
        "warning_lines_stripped": nwarn, "exhaustive": False})


def replay(ctx, rep):
    case = rep.get("case", {})

    def only(corpus):
        for name, data in case.get("files_b64", {}).items():
            corpus.put(name, base64.b64decode(data))
        argv = case.get("argv", [])
        c = {"kind": case.get("kind", "replay"), "argv": argv, "stdin": base64.b64decode(case.get("stdin_b64", "")),
             "fault": case.get("fault"), "tag": "replay", "infmt": None, "outfmt": None, "file": None, "id": 0}
        a = argv[1:] if argv and argv[0] == "--" else argv
        if a and ".." in a[0] and not a[0].startswith("-"):
            c["infmt"], c["outfmt"] = a[0].split("..", 1)
            c["file"] = a[1] if len(a) > 1 else None
        if c["kind"] not in ("command-line", "fault-injection"):
            c["kind"] = "replay"
        return [c]

    run(ctx, only=only)
