"""C03 - every tabulated space-group setting is a group with consistent metadata."""
from translate import sgtables, latrules
from vlib import core, sglive

TARGETS = ["Props/C03.vo"]


def tables_match_live(ctx):
    """Translator validation: the generated tables equal what the live module objects hold."""
    from diffpy.structure.spacegroups import SpaceGroupList
    rots, trs, settings = sgtables.load_all()
    ok = len(settings) == len(SpaceGroupList)
    detail = "" if ok else "translator sees %d settings, live list has %d" % (len(settings), len(SpaceGroupList))
    nops = 0
    if ok:
        for g, sg in zip(settings, SpaceGroupList):
            meta = (g["number"], g["num_sym_equiv"], g["num_primitive_sym_equiv"], g["short_name"], g["point_group_name"],
                    g["crystal_system"], g["pdb_name"])
            live = (sg.number, sg.num_sym_equiv, sg.num_primitive_sym_equiv, sg.short_name, sg.point_group_name,
                    sg.crystal_system, sg.pdb_name)
            if meta != live or len(g["ops"]) != len(sg.symop_list):
                ok, detail = False, "setting %s: translated metadata %s, live %s" % (g["var"], meta, live)
                break
            for (r, t), op in zip(g["ops"], sg.symop_list):
                e = sglive.exact_op(op)
                nops += 1
                if e is None or list(e[0]) != rots[r] or [x // 4 if x % 4 == 0 else None for x in e[1]] != trs[t]:
                    ok, detail = False, "setting %s: operation %s/%s differs from the live object" % (g["var"], r, t)
                    break
            if not ok:
                break
    ctx.obligation("correspondence:tables-vs-live-objects", ok, detail)
    ctx.count(n=nops)
    return ok


def finder(ctx):
    """Property stated directly on the implementation's live objects."""
    from diffpy.structure.spacegroups import SpaceGroupList
    from diffpy.structure.symmetryutilities import isSpaceGroupLatPar
    nums = {}
    found = 0
    for sg in SpaceGroupList:
        probs = list(sglive.check_setting(sg)) + list(sglive.check_latpar(sg, isSpaceGroupLatPar))
        ctx.count(("setting", sg.number))
        if sg.number in nums:
            probs.append(("number", "number %s used by two settings" % sg.number))
        nums[sg.number] = sg
        for field, msg in probs:
            found += 1
            ctx.violation("setting #%s (%s): %s: %s" % (sg.number, sg.short_name, field, msg),
                          {"setting": sg.number, "short_name": sg.short_name, "field": field, "message": msg},
                          key="%s:sg%s" % (field, sg.number))
    # settings sharing number % 1000 must be of the same space-group type (affine-invariant fingerprint)
    byn = {}
    for sg in SpaceGroupList:
        ops = [sglive.exact_op(o) for o in sg.symop_list]
        if any(o is None for o in ops):
            continue
        byn.setdefault(sg.number % 1000, []).append((sg, sglive.type_fingerprint(ops)))
    for n, lst in byn.items():
        ref = lst[0][1]
        # the reference is the majority fingerprint
        from collections import Counter
        ref = Counter(fp for _, fp in lst).most_common(1)[0][0]
        for sg, fp in lst:
            if fp != ref:
                found += 1
                ctx.violation("setting #%s (%s, %r): number %% 1000 = %d but its operations are not of the space-group type of the other "
                              "settings numbered %d (screw/glide character of %d rotation parts differs)" % (
                                  sg.number, sg.short_name, sg.pdb_name, n, n, len(set(fp) ^ set(ref))),
                              {"setting": sg.number, "short_name": sg.short_name, "field": "itnumber"}, key="itnumber:sg%s" % sg.number)
    return found


def run(ctx):
    ctx.trusted += ["Coq 8.16.1 kernel + vm_compute (no native_compute)", "translate/sgtables.py, translate/latrules.py (fail-closed ast translators)",
                    "stdlib Reals axioms under C03_latpar_* only"]
    ctx.assumptions += ["number mod 1000 is compared with the International-Tables range of the system only (no offline reference table)",
                        "float == in isSpaceGroupLatPar is modelled as equality of reals",
                        "rejection of lower-system cells is proved for one generic witness cell per system (partial)"]
    with core.BuildLock():
        ok1 = ctx.regen("sgtables", sgtables.generate)
        ok2 = ctx.regen("latrules", latrules.generate)
        if ok1 and ok2:
            ctx.coq(TARGETS, theorems_in={"Props/C03"})
    tables_match_live(ctx)
    n = finder(ctx)
    ctx.sample({"setting": 225, "checks": "identity-first, nodup, closure (192x192 products), inverses, counts, system, letter, number, latpar"})
    ctx.coverage.update({"exhaustive": True, "rule": "all settings of the live SpaceGroupList, every pair of operations; one key per setting",
                         "finder_violations": n})
