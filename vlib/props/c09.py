"""C09 - an atom's displacement parameters stay coherent under any assignment history.

Proof: Props/C09.v (state machine over R whose accessor bodies are translated from atom.py on every run).
Tie: (T) translate/c09_atom.py; (C) random histories on real Atoms vs the same generated model executed by Coq's
vm on binary64 floats (storage, flag and every readable compared after each step); numerical validation of the
`lat_ok` hypotheses on live Lattice objects.  Finder: every clause of the property text checked with numpy on the real
atoms after each step.
"""
import json
import math
import os
import re

import numpy

from translate import c09_atom
from vlib import core

TARGETS = ["Props/C09.vo", "Props/C09_Bridge.vo"]
NAMES = ["11", "22", "33", "12", "13", "23"]
IJ = {"11": (0, 0), "22": (1, 1), "33": (2, 2), "12": (0, 1), "13": (0, 2), "23": (1, 2)}
RTOL, ATOL = 1e-9, 1e-12


# ---------------------------------------------------------------------------------------------- lattices
def make_lattice(spec):
    from diffpy.structure import Lattice
    if spec is None:
        return None
    if spec["kind"] == "par":
        return Lattice(*spec["args"], baserot=spec.get("rot"))
    if spec["kind"] == "base":
        return Lattice(base=spec["base"])
    if spec["kind"] == "rebase":
        # an object that already went through setLatPar (as Structure() creates it) and is then re-defined in place
        L = Lattice(*spec.get("first", [1.0, 1.0, 1.0, 90.0, 90.0, 90.0]))
        L.setLatBase(spec["base"])
        return L
    raise ValueError(spec)


def random_rotation(rng):
    ax = numpy.array([rng.gauss(0, 1) for _ in range(3)])
    ax /= numpy.linalg.norm(ax)
    th = rng.uniform(0, 2 * math.pi)
    K = numpy.array([[0, -ax[2], ax[1]], [ax[2], 0, -ax[0]], [-ax[1], ax[0], 0]])
    R = numpy.identity(3) + math.sin(th) * K + (1 - math.cos(th)) * K.dot(K)
    return R.tolist()


def random_latspec(rng):
    k = rng.random()
    if k < 0.15:
        return None
    a, b, c = (round(rng.uniform(2, 12), 3) for _ in range(3))
    if k < 0.35:
        return {"kind": "par", "args": [a, b, c, 90.0, 90.0, 90.0]}
    if k < 0.45:
        return {"kind": "par", "args": [a, a, c, 90.0, 90.0, 120.0]}
    while True:
        al, be, ga = (round(rng.uniform(55, 125), 2) for _ in range(3))
        if k > 0.45 and k < 0.55:
            # the angles lattice.py special-cases through its exact cosine table (cosd(x), sind(x) = cosd(90 - x))
            sp = [rng.choice([30.0, 60.0, 120.0, 150.0]), al, be]
            rng.shuffle(sp)
            al, be, ga = sp
        ca, cb, cg = (math.cos(math.radians(x)) for x in (al, be, ga))
        if 1 + 2 * ca * cb * cg - ca * ca - cb * cb - cg * cg > 0.05:
            break
    if k < 0.75:
        return {"kind": "par", "args": [a, b, c, al, be, ga]}
    if k < 0.9:
        return {"kind": "par", "args": [a, b, c, al, be, ga], "rot": random_rotation(rng)}
    from diffpy.structure import Lattice
    base = numpy.dot(Lattice(a, b, c, al, be, ga).base, numpy.array(random_rotation(rng)))
    return {"kind": "base", "base": base.tolist()}


def own_normbase(lat):
    """normbase recomputed from the base vectors only (oracle for 'Cartesian axes')."""
    B = numpy.array(lat.base, dtype=float)
    R = numpy.linalg.inv(B)
    rl = numpy.sqrt((R ** 2).sum(axis=0))
    return B * rl[:, None], B


def lat_relations(lat, eps_src):
    """The hypotheses `lat_ok` of the theorems, on a live Lattice; returns list of failed relation names."""
    bad = []
    D = numpy.diag([lat.ar, lat.br, lat.cr])
    tol = 1e-9

    def close(x, y):
        return numpy.allclose(x, y, rtol=tol, atol=tol * max(1.0, float(numpy.abs(y).max())))
    if not close(lat.normbase, D.dot(lat.base)):
        bad.append("normbase = diag(ar,br,cr) base")
    if not close(lat.metrics, lat.base.dot(lat.base.T)):
        bad.append("metrics = base base^T")
    a, b, c, ca, cb, cg = lat.a, lat.b, lat.c, lat.ca, lat.cb, lat.cg
    G = numpy.array([[a * a, a * b * cg, a * c * cb], [b * a * cg, b * b, b * c * ca], [c * a * cb, c * b * ca, c * c]])
    if not close(lat.metrics, G):
        bad.append("metrics entries a_i a_j cos_ij")
    if not close(lat.normbase.dot(lat.recnormbase), numpy.identity(3)):
        bad.append("normbase recnormbase = I")
    if not close(lat.isotropicunit, lat.recnormbase.T.dot(lat.recnormbase)):
        bad.append("isotropicunit = recnormbase^T recnormbase")
    if not (lat._epsilon > 0 and lat._epsilon == eps_src):
        bad.append("_epsilon positive and equal to the translated literal")
    return bad


def latdata_floats(lat):
    """The attributes atom.py reads, in the field order of Model/C09_Prims.latdata."""
    sc = [lat.a, lat.b, lat.c, lat.ar, lat.br, lat.cr, lat.ca, lat.cb, lat.cg]
    return ([float(x) for x in sc], [numpy.array(m, dtype=float) for m in (lat.metrics, lat.base, lat.normbase, lat.isotropicunit)],
            float(lat._epsilon))


# ---------------------------------------------------------------------------------------------- Coq encoding
def fl(x):
    x = float(x)
    if x != x or x in (float("inf"), float("-inf")):
        raise ValueError("non-finite value in a case")
    h = x.hex()
    return "(%s)" % h if h.startswith("-") else h


def cvec(v):
    return "(GV %s %s %s)" % tuple(fl(x) for x in v)


def cmat(m):
    m = numpy.array(m, dtype=float)
    return "(GM %s %s %s)" % tuple(cvec(r) for r in m)


def clat(lat):
    if lat is None:
        return "None"
    sc, ms, eps = latdata_floats(lat)
    return "(Some (LD %s %s %s))" % (" ".join(fl(x) for x in sc), " ".join(cmat(m) for m in ms), fl(eps))


def cop(op, lat_after):
    k = op[0]
    if k == "aniso":
        return "OSetAniso %s" % ("true" if op[1] else "false")
    if k == "U":
        return "OSetU %s" % cmat(numpy.array(op[1]).reshape(3, 3))
    if k == "Uij":
        return "OSetUij N%s %s" % (op[1], fl(op[2]))
    if k == "Bij":
        return "OSetBij N%s %s" % (op[1], fl(op[2]))
    if k == "Uiso":
        return "OSetUiso %s" % fl(op[1])
    if k == "Biso":
        return "OSetBiso %s" % fl(op[1])
    if k in ("lat", "latpar"):
        return "OSetLat %s" % clat(lat_after)
    if k == "readU":
        return "OReadU"
    if k == "msd":
        return "OMsdLat %s" % cvec(op[1])
    if k == "copy":
        return "OCopy"
    raise ValueError(op)


# ---------------------------------------------------------------------------------------------- real side
def ctor_kwargs(c):
    """keyword arguments of a constructor form (fresh Lattice object each time)"""
    kw = {}
    for k in ("xyz", "label", "occupancy"):
        if k in c:
            kw[k] = c[k]
    if "U" in c:
        kw["U"] = numpy.array(c["U"], dtype=float).reshape(3, 3)
    if "Uiso" in c:
        kw["Uisoequiv"] = c["Uiso"]
    if "lattice" in c:
        kw["lattice"] = make_lattice(c["lattice"])
    if "anisotropy" in c:
        kw["anisotropy"] = c["anisotropy"]
    return kw


def construct(a, c):
    """The real constructor call for the form c; a = current atom (used as atype when c['from_current'])."""
    from diffpy.structure import Atom
    kw = ctor_kwargs(c)
    if c.get("from_current"):
        return Atom(a, **kw)
    if "element" in c:
        return Atom(c["element"], **kw)
    return Atom(**kw)


def construct_documented(a, c):
    """The documented meaning of the same form: the assignments made one by one, lattice BEFORE the explicit flag."""
    from diffpy.structure import Atom
    if "U" in c and "Uiso" in c:
        raise ValueError("both")
    kw = ctor_kwargs(c)
    d = Atom(a) if c.get("from_current") else Atom()
    if "U" in kw:
        d.anisotropy = True
        d.U = kw["U"]
    if "Uisoequiv" in kw:
        d.anisotropy = False
        d.Uisoequiv = kw["Uisoequiv"]
    if "lattice" in kw:
        d.lattice = kw["lattice"]
    if "anisotropy" in kw:
        d.anisotropy = bool(kw["anisotropy"])
    return d


def copy_atom(a, how):
    import copy as _copy
    from diffpy.structure import Atom
    if how == "__copy__":
        return a.__copy__()
    if how == "copy":
        return _copy.copy(a)
    return Atom(a)


def apply_op(a, op):
    """Apply one operation to the real Atom; returns (atom afterwards, extra observations)."""
    k = op[0]
    if k == "ctor":
        return construct(a, op[1]), []
    if k == "copy":
        return copy_atom(a, op[1]), []
    if k == "aniso":
        a.anisotropy = op[1]
    elif k == "U":
        a.U = numpy.array(op[1], dtype=float).reshape(3, 3)
    elif k == "Uij":
        setattr(a, "U" + op[1], op[2])
    elif k == "Bij":
        setattr(a, "B" + op[1], op[2])
    elif k == "Uiso":
        a.Uisoequiv = op[1]
    elif k == "Biso":
        a.Bisoequiv = op[1]
    elif k == "lat":
        a.lattice = make_lattice(op[1])
    elif k == "latpar":
        a.lattice.setLatPar(**op[1])
    elif k == "readU":
        a.U
    elif k == "msd":
        v = numpy.array(op[1], dtype=float)
        from diffpy.structure.lattice import cartesian as cart
        lat = a.lattice or cart
        m1 = float(a.msdLat(v))
        m2 = float(a.msdCart(lat.cartesian(v)))
        return a, [m1, m2]
    else:
        raise ValueError(op)
    return a, []


def observe(a):
    """All readables, read on a copy so that observing does not rewrite the storage of `a`."""
    from diffpy.structure import Atom
    c = Atom(a)
    out = [float(x) for x in numpy.array(c.U, dtype=float).reshape(9)]
    out += [float(getattr(c, "U" + n)) for n in NAMES]
    out += [float(getattr(c, "B" + n)) for n in NAMES]
    out += [float(c.Uisoequiv), float(c.Bisoequiv)]
    return bool(c.anisotropy), out


def sym_tensor(rng, scale):
    d = [rng.uniform(0.1, 1) * scale for _ in range(3)]
    o = [rng.uniform(-0.3, 0.3) * scale for _ in range(3)]
    if rng.random() < 0.15:      # traceless: exercises the |uequiv| < eps branch of the Uisoequiv setter
        d = [scale, -scale, 0.0]
        o = [0.0, 0.0, 0.0] if rng.random() < 0.5 else o
    return [d[0], o[0], o[1], o[0], d[1], o[2], o[1], o[2], d[2]]


def current_uequiv(a):
    from diffpy.structure import Atom
    return float(Atom(a).Uisoequiv)


def random_ctor(rng, scale=1.0, both=False):
    """A constructor form: any combination of the keyword arguments (the copy-constructor included)."""
    c = {}
    if rng.random() < 0.45:
        c["from_current"] = True
    elif rng.random() < 0.7:
        c["element"] = rng.choice(["C", "Ni", "O2-"])
    if rng.random() < 0.4:
        c["xyz"] = [round(rng.uniform(-1, 1), 3) for _ in range(3)]
    if rng.random() < 0.3:
        c["label"] = "L%d" % rng.randint(0, 9)
    if rng.random() < 0.3:
        c["occupancy"] = rng.choice([1, 0.5, 0.25])
    k = rng.random()
    if both:
        k = 2.0
    if k < 0.35 or k >= 2:
        c["U"] = sym_tensor(rng, scale)
    if 0.35 <= k < 0.7 or k >= 2:
        c["Uiso"] = rng.choice([rng.uniform(0.001, 1) * scale, 0.0, -0.02 * scale])
    if rng.random() < 0.75:
        lat = random_latspec(rng)
        if lat is not None:
            c["lattice"] = lat
    if rng.random() < 0.6:
        c["anisotropy"] = rng.choice([True, False, 1, 0])
    return c


def random_op(rng, a):
    """One operation; avoids the decision margin of the epsilon test and ill-conditioned rescaling."""
    scale = rng.choice([1.0, 0.01, 1e-3, 5.0])
    r0 = rng.random()
    if r0 < 0.05:
        return ["copy", rng.choice(["__copy__", "copy", "Atom"])]
    if r0 < 0.13:
        return ["ctor", random_ctor(rng, scale)]
    for _ in range(50):
        r = rng.random()
        if r < 0.14:
            return ["aniso", rng.random() < 0.5]
        if r < 0.26:
            return ["U", sym_tensor(rng, scale)]
        if r < 0.40:
            return ["Uij", rng.choice(NAMES), rng.uniform(-0.5, 1) * scale]
        if r < 0.50:
            return ["Bij", rng.choice(NAMES), rng.uniform(-0.5, 1) * scale * 80]
        if r < 0.66:
            v = rng.choice([rng.uniform(0.001, 1) * scale, 0.0, 3e-10, -0.02 * scale])
            kind = "Uiso" if rng.random() < 0.7 else "Biso"
            if a.anisotropy:
                ue = current_uequiv(a)
                eps = (a.lattice._epsilon if a.lattice is not None else 1e-8)
                umax = float(numpy.abs(a._U).max())
                if 0.25 * eps < abs(ue) < 4 * eps:
                    continue                      # decision margin of |uequiv| < eps
                if abs(ue) >= eps and abs(ue) < 1e-5 * umax:
                    continue                      # rescaling by value / uequiv amplifies rounding: not comparable
            return [kind, v * (80 if kind == "Biso" else 1)]
        if r < 0.76:
            return ["lat", random_latspec(rng)]
        if r < 0.80 and a.lattice is not None:
            ch = rng.choice(["a", "b", "c", "gamma"])
            if ch == "gamma":
                import math
                g = round(rng.uniform(80, 100), 2)
                ca, cb, cg = (math.cos(math.radians(x)) for x in (a.lattice.alpha, a.lattice.beta, g))
                if 1 + 2 * ca * cb * cg - ca * ca - cb * cb - cg * cg > 0.05:      # only cells that exist
                    return ["latpar", {"gamma": g}]
                ch = "a"
            return ["latpar", {ch: round(rng.uniform(2, 12), 3)}]
        if r < 0.88:
            return ["readU"]
        v = [rng.uniform(-2, 2) for _ in range(3)]
        if max(abs(x) for x in v) > 0.1:
            return ["msd", v]
    return ["readU"]


# ---------------------------------------------------------------------------------------------- finder (property text on the real code)
def clause_failures(a, rng=None, vdirs=()):
    """Every clause of the property text, directly with numpy on a real Atom.  Returns list of (clause, detail)."""
    from diffpy.structure import Atom
    from diffpy.structure.lattice import cartesian as cart
    bad = []
    c = Atom(a)
    lat = c.lattice or cart
    U = numpy.array(c.U, dtype=float)
    ue = float(c.Uisoequiv)
    sc = max(1e-300, float(numpy.abs(U).max()), abs(ue))

    def close(x, y, s=None):
        s = sc if s is None else s
        return abs(x - y) <= 1e-9 * max(s, abs(x), abs(y)) + 1e-300
    if not numpy.allclose(U, U.T, rtol=0, atol=1e-12 * sc):
        bad.append(("symmetric", "U = %s" % U.tolist()))
    if not c.anisotropy:
        T = ue * numpy.array(lat.isotropicunit)
        if not numpy.allclose(U, T, rtol=1e-9, atol=1e-12 * sc):
            bad.append(("isotropic tensor = value x unit", "U = %s, Uisoequiv*isotropicunit = %s" % (U.tolist(), T.tolist())))
    k = 8 * math.pi ** 2
    for n in NAMES:
        i, j = IJ[n]
        uij, bij = float(getattr(c, "U" + n)), float(getattr(c, "B" + n))
        if not close(uij, U[i, j]):
            bad.append(("U%s reads the tensor" % n, "U%s = %r, U[%d,%d] = %r" % (n, uij, i, j, U[i, j])))
        if not close(bij, k * uij, s=k * sc):
            bad.append(("B = 8 pi^2 U", "B%s = %r, 8pi^2 U%s = %r" % (n, bij, n, k * uij)))
    if not close(float(c.Bisoequiv), k * ue, s=k * sc):
        bad.append(("B = 8 pi^2 U", "Bisoequiv = %r, 8pi^2 Uisoequiv = %r" % (float(c.Bisoequiv), k * ue)))
    N, B = own_normbase(lat)
    Uc = N.T.dot(U).dot(N)
    if not close(ue, numpy.trace(Uc) / 3.0, s=float(numpy.abs(Uc).max()) + sc):
        bad.append(("Uisoequiv = trace(U_cart)/3", "Uisoequiv = %r, trace/3 = %r" % (ue, numpy.trace(Uc) / 3.0)))
    # flag off and on (on a copy)
    d = Atom(a)
    f = d.anisotropy
    d.anisotropy = not f
    if not close(float(d.Uisoequiv), ue):
        bad.append(("switching the flag keeps Uisoequiv", "before %r, after switching the flag %s -> %s: %r" % (ue, f, not f, float(d.Uisoequiv))))
    d.anisotropy = f
    if not close(float(d.Uisoequiv), ue):
        bad.append(("flag off/on keeps Uisoequiv", "before %r after %r (flag %s)" % (ue, float(d.Uisoequiv), f)))
    for v in vdirs:
        v = numpy.array(v, dtype=float)
        e = Atom(a)
        m1 = float(e.msdLat(v))
        m2 = float(e.msdCart(v.dot(B)))
        if not close(m1, m2):
            bad.append(("msdLat(v) = msdCart(v.base)", "v = %s: %r vs %r" % (v.tolist(), m1, m2)))
        # independent value: n^T U_cart n
        nv = v.dot(B)
        nv = nv / numpy.linalg.norm(nv)
        m3 = float(nv.dot(Uc).dot(nv))
        if not close(m2, m3):
            bad.append(("msdCart = n.U_cart.n", "v = %s: %r vs %r" % (v.tolist(), m2, m3)))
    return bad


def ctor_failures(before, after, c):
    """The constructor form c applied to `before` gave `after`: compare with the documented one-by-one assignments."""
    bad = []
    try:
        d = construct_documented(before, c)
    except ValueError:
        return [("constructor rejects U together with Uisoequiv", "no ValueError for %s" % sorted(c))]
    f1, v1 = observe(after)
    f2, v2 = observe(d)
    sc = max([abs(x) for x in v2[:9]] + [1e-300])
    if f1 != f2 or any(abs(x - y) > 1e-9 * max(sc * (80 if 15 <= i < 21 or i == 22 else 1), abs(y)) for i, (x, y) in enumerate(zip(v1, v2))):
        bad.append(("constructor = the documented assignments one by one (lattice before the flag)",
                    "form %s: flag %s vs %s, Uisoequiv %r vs %r, U %s vs %s" % (json.dumps(c)[:300], f1, f2, v1[21], v2[21], v1[:9], v2[:9])))
    if "Uiso" in c and abs(v1[21] - c["Uiso"]) > 1e-9 * max(abs(c["Uiso"]), sc):
        bad.append(("switching the flag keeps Uisoequiv", "Atom(Uisoequiv=%r, ...) with %s reads back Uisoequiv = %r" % (c["Uiso"], sorted(c), v1[21])))
    return bad


def copy_failures(old, new):
    """Atom.__copy__ / copy.copy / Atom(a): equal readables, no shared arrays, edits do not propagate."""
    bad = []
    if new is old or new._U is old._U or new.xyz is old.xyz or numpy.shares_memory(new._U, old._U) or numpy.shares_memory(new.xyz, old.xyz):
        bad.append(("a copy shares nothing with its source", "copy shares _U or xyz with the atom it was made from"))
        return bad
    if observe(old) != observe(new) or new.lattice is not old.lattice or not numpy.array_equal(new.xyz, old.xyz):
        bad.append(("a copy reads like its source", "readables differ right after the copy"))
    snap = (new._U.copy(), new.xyz.copy(), new.anisotropy)
    keep = (old._U.copy(), old.xyz.copy())
    old._U += 1.0
    old.xyz += 1.0
    if not (numpy.array_equal(new._U, snap[0]) and numpy.array_equal(new.xyz, snap[1]) and new.anisotropy == snap[2]):
        bad.append(("a copy shares nothing with its source", "editing the source changed the copy"))
    old._U[:] = keep[0]
    old.xyz[:] = keep[1]
    return bad


def report(ctx, case, fails):
    """One violation per clause (the first, i.e. shortest, failing history prefix)."""
    seen = ctx.__dict__.setdefault("_c09_seen", set())
    n = 0
    for k, cl, det in fails:
        n += 1
        if cl in seen:
            continue
        seen.add(cl)
        ctx.violation("clause '%s' fails after step %d of a history: %s" % (cl, k, det),
                      {"ops": case["ops"][:k + 1], "clause": cl, "detail": det}, kind="history", key="clause:" + cl)
    return n


def run_history(case, check_clauses=True):
    """Replay a history on the real code.  Returns (observations per step, clause failures [(step, clause, detail)])."""
    from diffpy.structure import Atom
    a = Atom()
    obs, fails, lats = [], [], []
    for k, op in enumerate(case["ops"]):
        prev = a
        try:
            a, extra = apply_op(a, op)
        except ValueError:
            if op[0] == "ctor" and "U" in op[1] and "Uiso" in op[1]:
                break                       # documented rejection: the history ends here (the model returns None)
            raise
        if check_clauses and op[0] == "ctor":
            for cl, det in ctor_failures(prev, a, op[1]):
                fails.append((k, cl, det))
        if check_clauses and (op[0] == "U" or (op[0] == "ctor" and "U" in op[1])):
            # the atom must not adopt the array object handed in by the caller (two atoms given the same array would share it)
            from diffpy.structure import Atom as _A
            arr = numpy.array(op[1] if op[0] == "U" else op[1]["U"], dtype=float).reshape(3, 3)
            probe = _A(a)
            probe.U = arr
            made = _A(U=arr)
            if probe._U is arr or numpy.shares_memory(probe._U, arr) or made._U is arr or numpy.shares_memory(made._U, arr):
                fails.append((k, "a copy shares nothing with its source", "assigning U (or Atom(U=..)) adopts the caller's array object"))
        if check_clauses and op[0] == "copy":
            for cl, det in copy_failures(prev, a):
                fails.append((k, cl, det))
        if check_clauses and op[0] == "ctor" and op[1].get("from_current"):
            for cl, det in copy_failures(prev, a):
                if cl == "a copy shares nothing with its source":
                    fails.append((k, cl, det))
        flag, vals = observe(a)
        obs.append((flag, [float(x) for x in numpy.array(a._U).reshape(9)], vals, extra))
        lats.append(a.lattice)
        if check_clauses:
            dirs = [op[1]] if op[0] == "msd" else ([[1.0, 0.0, 0.0], [0.3, -1.2, 0.7]] if k % 4 == 0 else [])
            for cl, det in clause_failures(a, vdirs=dirs):
                fails.append((k, cl, det))
    return obs, fails, a


def gen_case(rng, nsteps):
    """Generate a history by running it (operations depend on the current state for the margins)."""
    from diffpy.structure import Atom
    a = Atom()
    ops, lat_snap = [], []
    if rng.random() < 0.5:                  # half of the histories start from a constructor form instead of Atom()
        ops.append(["ctor", random_ctor(rng, rng.choice([1.0, 0.01]))])
        a, _ = apply_op(a, ops[0])
        lat_snap.append(clat(make_lattice(ops[0][1]["lattice"])) if "lattice" in ops[0][1] else None)
    for _ in range(nsteps):
        op = random_op(rng, a)
        a, _ = apply_op(a, op)
        ops.append(op)
        if op[0] == "ctor":
            lat_snap.append(clat(make_lattice(op[1]["lattice"])) if "lattice" in op[1] else None)
        else:
            lat_snap.append(clat(a.lattice) if op[0] in ("lat", "latpar") else None)
    if rng.random() < 0.06:                 # U together with Uisoequiv: ValueError, ends the history
        ops.append(["ctor", random_ctor(rng, both=True)])
        lat_snap.append(clat(make_lattice(ops[-1][1]["lattice"])) if "lattice" in ops[-1][1] else None)
    return {"ops": ops}, lat_snap


# ---------------------------------------------------------------------------------------------- correspondence
def coq_cases_text(cases, snaps, eps):
    lines = ["From Coq Require Import Floats List ZArith.",
             "From DS Require Import Base.C09_GNum Model.C09_Prims Gen.C09_AtomFormulas Model.C09_AtomADP.",
             "Import ListNotations.", "Open Scope float_scope.",
             "Definition C := FC %s (c_lat_epsilon (FC 0 0))." % fl(math.pi),
             "Definition stU (s : astate float) := flat (st_U s).",
             "Inductive item := IOp (o : op float)",
             "  | ICtor (from_cur : bool) (an : option bool) (U : option (gmat float)) (ui : option float) (lat : option (latdata float)).",
             "Definition obs (s : astate float) (extra : list float) := (fst (observe C s), stU s, snd (observe C s) ++ extra).",
             "Fixpoint tr (s : astate float) (ops : list item) : list (bool * list float * list float) :=",
             "  match ops with [] => []",
             "  | IOp o :: r => let s' := step C s o in",
             "    let extra := match o with OMsdLat v => [rd_msdLat C s v; rd_msdCart C s (Lattice_cartesian C (the_lat C s) v)] | _ => [] end in",
             "    obs s' extra :: tr s' r",
             "  | ICtor fc an U ui lat :: r =>",
             "    match init_Atom C (if fc then Some s else None) an U ui lat with Some s' => obs s' [] :: tr s' r | None => [] end",
             "  end.",
             "Eval vm_compute in (c_lat_epsilon (FC 0 0))."]
    for case, snap in zip(cases, snaps):
        ops = []
        for op, sn in zip(case["ops"], snap):
            if op[0] in ("lat", "latpar"):
                ops.append("IOp (OSetLat %s)" % sn)
            elif op[0] == "ctor":
                c = op[1]
                ops.append("ICtor %s %s %s %s %s" % (
                    "true" if c.get("from_current") else "false",
                    "(Some %s)" % ("true" if c["anisotropy"] else "false") if "anisotropy" in c else "None",
                    "(Some %s)" % cmat(numpy.array(c["U"]).reshape(3, 3)) if "U" in c else "None",
                    "(Some %s)" % fl(c["Uiso"]) if "Uiso" in c else "None",
                    sn if sn is not None else "None"))
            else:
                ops.append("IOp (%s)" % cop(op, None))
        lines.append("Eval vm_compute in (tr (init C) [%s])." % "; ".join(ops))
    return "\n".join(lines) + "\n"


def parse_coq_output(out):
    """Split the coqc output into one block per Eval."""
    blocks = re.split(r"\n\s*: [^\n]*\n?", "\n" + out)
    res = []
    for b in blocks:
        b = b.strip()
        if not b.startswith("="):
            continue
        res.append(b[1:].strip())
    return res


def parse_trace(txt):
    txt = txt.replace("\n", " ")
    steps = []
    for m in re.finditer(r"\(\s*(true|false)\s*,\s*\[([^\]]*)\]\s*,\s*\[([^\]]*)\]\s*\)", txt):
        f = m.group(1) == "true"
        st = [float(x) for x in m.group(2).split(";") if x.strip()]
        vals = [float(x) for x in m.group(3).split(";") if x.strip()]
        steps.append((f, st, vals))
    return steps


def close(x, y, scale):
    return abs(x - y) <= RTOL * max(abs(x), abs(y), scale) + ATOL * 0 + 1e-300 or (x == y)


def correspondence(ctx, ncases, maxsteps, eps):
    rng = ctx.rng
    cases, snaps = [], []
    for _ in range(ncases):
        c, s = gen_case(rng, rng.randint(3, maxsteps))
        cases.append(c)
        snaps.append(s)
    ok_all = True
    first_bad = None
    nsteps = 0
    chunk = 250
    for c0 in range(0, ncases, chunk):
        sub, subs = cases[c0:c0 + chunk], snaps[c0:c0 + chunk]
        rc, out = ctx.coq_eval("c09_cases_%d" % c0, coq_cases_text(sub, subs, eps), timeout=900)
        blocks = parse_coq_output(out) if rc == 0 else []
        if rc != 0 or len(blocks) != len(sub) + 1:
            ctx.obligation("correspondence:model-runs", False, "coqc rc=%s, %d blocks for %d cases: %s" % (rc, len(blocks), len(sub), out[-400:]))
            return cases
        if abs(float(blocks[0]) - eps) > 0:
            ctx.obligation("correspondence:epsilon", False, "model epsilon %s, Lattice._epsilon %r" % (blocks[0], eps))
            ok_all = False
        for case, blk in zip(sub, blocks[1:]):
            model = parse_trace(blk)
            real, fails, _ = run_history(case, check_clauses=True)
            sig = tuple(op[0] for op in case["ops"])
            ctx.count(("hist", sig), n=len(case["ops"]))
            nsteps += len(case["ops"])
            report(ctx, case, fails)
            if len(model) != len(real):
                ok_all = False
                first_bad = first_bad or (case, "model returned %d steps for %d operations" % (len(model), len(real)))
                continue
            for k, ((mf, mst, mv), (rf, rst, rv, rx)) in enumerate(zip(model, real)):
                rvals = rv + rx
                scale = max([abs(x) for x in rst] + [1e-30])
                bad = None
                if mf != rf:
                    bad = "flag: model %s, implementation %s" % (mf, rf)
                elif len(mv) != len(rvals):
                    bad = "model has %d readables, implementation %d" % (len(mv), len(rvals))
                else:
                    for idx, (x, y) in enumerate(zip(mst, rst)):
                        if not close(x, y, scale):
                            bad = "storage _U[%d,%d]: model %r, implementation %r" % (idx // 3, idx % 3, x, y)
                            break
                    if bad is None:
                        for idx, (x, y) in enumerate(zip(mv, rvals)):
                            s2 = scale * (80 if 15 <= idx < 21 or idx == 22 else 1)
                            if not close(x, y, s2):
                                bad = "readable #%d: model %r, implementation %r" % (idx, x, y)
                                break
                if bad:
                    ok_all = False
                    first_bad = first_bad or ({"ops": case["ops"][:k + 1]}, "step %d (%s): %s" % (k, case["ops"][k][0], bad))
                    break
    ctx.obligation("correspondence:histories-model-vs-atom", ok_all,
                   "" if ok_all else "%s ; history %s" % (first_bad[1], json.dumps(first_bad[0])[:1500]))
    ctx.coverage["history_steps"] = nsteps
    if first_bad:
        ctx.sample({"disagreement": first_bad[1], "history": first_bad[0]})
    return cases


def validate_hypotheses(ctx, n, eps):
    """lat_ok on live lattices + the model's cartesian constant against the live module constant."""
    from diffpy.structure.lattice import cartesian as cart
    bad = []
    sc, ms, e = latdata_floats(cart)
    if sc != [1.0] * 6 + [0.0] * 3 or any((m != numpy.identity(3)).any() for m in ms) or e != eps:
        bad.append("lattice.cartesian is not the unit cubic cell of Model/C09_Prims.cart_lat: %s" % (sc,))
    for _ in range(n):
        spec = ctx.rng.choice([random_latspec(ctx.rng), random_latspec(ctx.rng)])
        if spec is None:
            continue
        lat = make_lattice(spec)
        r = lat_relations(lat, eps)
        ctx.count(("latrel", spec["kind"], "rot" in spec))
        if r:
            bad.append("%s: %s" % (json.dumps(spec)[:200], r))
            break
        # after an in-place update as well
        lat.setLatPar(a=lat.a * 1.5, gamma=lat.gamma + 1.0)
        r = lat_relations(lat, eps)
        if r:
            bad.append("after setLatPar %s: %s" % (json.dumps(spec)[:200], r))
            break
    ctx.obligation("hypotheses:lat_ok-holds-on-live-lattices", not bad, "; ".join(bad))


def finder_only(ctx, ncases, maxsteps):
    """More histories on the real code alone (no model), checking the property text."""
    n = 0
    for _ in range(ncases):
        case, _ = gen_case(ctx.rng, ctx.rng.randint(3, maxsteps))
        _, fails, _ = run_history(case, check_clauses=True)
        ctx.count(("finder", tuple(op[0] for op in case["ops"])), n=len(case["ops"]))
        n += report(ctx, case, fails)
    return n


def run(ctx):
    ctx.trusted += ["Coq 8.16.1 kernel; vm_compute; stdlib Reals axioms (sig_forall_dec, sig_not_dec, functional_extensionality_dep)",
                    "translate/c09_atom.py (fail-closed ast translator of the ADP accessors of atom.py, Lattice.norm/cartesian)",
                    "Base/C09_GNum.v: the meaning given to numpy.dot/transpose/trace/multiply/sum on 3-vectors and 3x3 arrays",
                    "PrimFloat evaluation of the model in the correspondence run (not under any theorem)",
                    "harness: generators, 1e-9 relative comparison, decision-margin skip of |uequiv| < eps"]
    ctx.assumptions += ["float arithmetic is modelled by real arithmetic in the theorems (float results within tolerance: measured, not proved)",
                        "lat_ok: normbase = diag(ar,br,cr) base, metrics = base base^T with entries a_i a_j cos_ij, "
                        "isotropicunit = recnormbase^T recnormbase, normbase recnormbase = I, _epsilon > 0 - checked on live lattices each run AND "
                        "proved (Props/C09_Bridge.v) for every lattice the generated lattice.py code builds from a valid cell + proper rotation "
                        "or from a base with positive determinant",
                        "full-tensor arguments are symmetric 3x3 arrays; elements of Atom.U are not written in place by the caller",
                        "for a zero direction msdLat/msdCart return nan in Python; the msd theorem equates the two formulas as real expressions"]
    quick = ctx.tier == "quick"
    info = None
    with core.BuildLock():
        ok = ctx.regen("c09_atom", c09_atom.generate)
        # the bridge theorems (Props/C09_Bridge.v) are about the lattice code regenerated from lattice.py / structure.py
        from translate import lattice as _tl, c14_place as _tp
        ok = ctx.regen("lattice", _tl.generate) and ctx.regen("c14_place", _tp.generate) and ok
        if ok:
            info = c09_atom.info()
            okb, _ = ctx.coq(TARGETS, theorems_in={"Props/C09", "Props/C09_Bridge"})
            eps = info["epsilon"]
            validate_hypotheses(ctx, 60 if quick else 600, eps)
            if os.path.exists(os.path.join(core.COQ, "Model", "C09_AtomADP.vo")):
                correspondence(ctx, 600 if quick else 12000, 14 if quick else 40, eps)
            else:
                ctx.obligation("correspondence:model-runs", False, "model did not build")
    if info is None:
        eps = 1e-8
    finder_only(ctx, 400 if quick else 20000, 16 if quick else 40)
    ctx.coverage.update({"exhaustive": False,
                         "rule": "random histories (3..%d operations) over flag/U/Uij/Bij/Uisoequiv/Bisoequiv/lattice/in-place lattice change/"
                                 "U read/msd, lattices None/orthogonal/hexagonal/oblique/rotated/from base; key = sequence of operation kinds"
                                 % (14 if quick else 40),
                         "accessors_writing_storage": sorted(k for k, v in (info or {"writes": {}})["writes"].items() if v)})
    ctx.sample({"history": [["lat", {"kind": "par", "args": [3, 4, 5, 80, 95, 110]}], ["Uiso", 0.5], ["aniso", True], ["Uij", "12", 0.1],
                            ["msd", [1, 2, 3]], ["aniso", False]], "compared": "flag, _U storage, U, U11..U23, B11..B23, Uisoequiv, Bisoequiv, msd"})


def replay(ctx, rep):
    case = rep.get("case", rep)
    _, fails, _ = run_history({"ops": case["ops"]}, check_clauses=True)
    ctx.count(n=len(case["ops"]))
    for k, cl, det in fails:
        ctx.violation("clause '%s' fails after step %d: %s" % (cl, k, det), {"ops": case["ops"][:k + 1], "clause": cl, "detail": det},
                      kind="history", key="clause:" + cl)
    ctx.obligation("replay-completed", True)
