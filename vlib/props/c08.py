"""C08 - a Structure stays a consistent list of atoms in one lattice under any edits.

Proof: coq/Props/C08.v (heap model coq/Model/C08_StructHeap.v, invariants by induction over operation
sequences).  Tie (C): seeded random operation sequences are run on real Structure objects and on the
extracted model (ocaml/C08/c08_driver); after EVERY step the identity pattern of every live object, the
atom -> lattice pattern, the labels and the outcome (result identity / exception kind / divergence) are
compared.  Finder: vlib/c08_ops.Oracle states the property text directly on the real objects."""
import json
import os
import subprocess
import time

from translate import c08_shapes
from vlib import c08_ops as K
from vlib import core

DRIVER = os.path.join(core.VERIF, "ocaml", "C08", "c08_driver")
CORPUS = os.path.join(core.VERIF, "corpus", "C08")
TARGETS = ["Props/C08.vo"]


# ------------------------------------------------------------------ running both sides

def run_model(seqs, variant="current"):
    """list of op lists -> list of lists of (canonical snapshot, flags)"""
    text = "\n".join(K.seq_text(s) for s in seqs) + "\n"
    p = subprocess.run([DRIVER, variant], input=text, stdout=subprocess.PIPE, stderr=subprocess.PIPE, text=True, timeout=1200)
    if p.returncode != 0:
        raise RuntimeError("model driver failed: " + p.stderr[-500:])
    out, cur = [], []
    for line in p.stdout.splitlines():
        if line == "END":
            out.append(cur)
            cur = []
        elif line.startswith("BAD"):
            cur.append(("BAD " + line, (0, 0)))
        else:
            snap, flags = K.parse_model_line(line)
            cur.append((K.canon(snap), flags))
    return out


def is_self_extend(op):
    return op[0] in ("Extend", "IAdd") and op[1] == op[2]


def run_real(ops=None, rng=None, maxlen=12, p_invalid=0.12, allow_self_extend=True):
    """Execute a given sequence, or generate one online.  Returns (ops, canonical snapshots, findings)
    where findings = [(step, key, what, excuse)] from the oracle.  With allow_self_extend=False a given
    sequence is cut before its first s.extend(s) / s += s (used once that call has been seen not to return:
    every further instance would cost ALARM_S seconds)."""
    R = K.Real()
    O = K.Oracle(R)
    snaps, finds, done = [], [], []
    gen = None
    if ops is None:
        gen = K.Gen(rng, R, p_invalid, allow_self_extend)
        queue = list(gen.prelude())
    else:
        queue = list(ops)
    k = 0
    while True:
        if queue:
            op = queue.pop(0)
            if not allow_self_extend and is_self_extend(op):
                break
        elif gen is not None and len(done) < maxlen:
            op = gen.next()
        else:
            break
        O.before(op)
        oc = R.step(op)
        done.append(op)
        # after a call that did not return the state is not observed (only the outcome is compared)
        snaps.append((("div",), []) if oc[0] == "div" else K.canon(R.snapshot(oc)))
        for key, what, excuse in O.after(op, oc):
            finds.append((k, key, what, excuse))
        k += 1
        if oc[0] == "div":
            break
    return done, snaps, finds


def first_mismatch(real_snaps, model_rows):
    for k, rs in enumerate(real_snaps):
        if k >= len(model_rows):
            return k, "model produced %d steps, implementation %d" % (len(model_rows), len(real_snaps))
        ms = model_rows[k][0]
        if rs[0] == ("div",) and ms[0] == ("div",):
            continue
        if ms != rs:
            return k, "step %d: implementation %s, model %s" % (k, json.dumps(rs)[:600], json.dumps(ms)[:600])
    return None


def judge(ops, snaps, finds, rows):
    """-> (mismatch or None, [(key, what, step)] final violations after applying the guard flags)"""
    mm = first_mismatch(snaps, rows)
    viol = []
    for step, key, what, excuse in finds:
        if excuse is not None and (mm is None or mm[0] > step) and step < len(rows) and rows[step][1][excuse[0]] == 1:
            key = excuse[1]
        viol.append((key, what, step))
    return mm, viol


def check_sequence(ops):
    done, snaps, finds = run_real(ops)
    rows = run_model([done])[0]
    return judge(done, snaps, finds, rows)


def shrink(ops, pred, budget=400, seconds=25.0):
    """one-at-a-time delta debugging: drop operations while pred(ops) stays true (bounded in tries and time)"""
    ops = list(ops)
    changed = True
    t_end = time.time() + seconds
    while changed and budget > 0 and time.time() < t_end:
        changed = False
        i = len(ops) - 1
        while i >= 0 and budget > 0 and time.time() < t_end:
            cand = ops[:i] + ops[i + 1:]
            budget -= 1
            try:
                if cand and pred(cand):
                    ops = cand
                    changed = True
            except Exception:
                pass
            i -= 1
    return ops


def jsonable(ops):
    return [list(o) for o in ops]


# ------------------------------------------------------------------ reporting

class Tally:
    def __init__(self, ctx):
        self.ctx = ctx
        self.mismatches = []
        self.viol_keys = {}
        self.opcount = {}
        self.outcomes = {}
        self.flag_runs = [0, 0]
        self.steps = 0
        self.divs = 0

    def account(self, ops, snaps, rows):
        self.steps += len(snaps)
        for o, s in zip(ops, snaps):
            self.opcount[o[0]] = self.opcount.get(o[0], 0) + 1
            oc = s[0]
            k = oc[1] if oc[0] == "raise" else oc[0]
            self.outcomes[k] = self.outcomes.get(k, 0) + 1
            if oc[0] == "div":
                self.divs += 1
        if rows:
            fl = rows[min(len(rows), len(snaps)) - 1][1]
            self.flag_runs[0] += fl[0]
            self.flag_runs[1] += fl[1]

    def report(self, ops, mm, viol, source):
        ctx = self.ctx
        for key, what, step in viol:
            if key not in self.viol_keys:
                # minimise the history for this key
                def pred(c, key=key):
                    m2, v2 = check_sequence(c)
                    return any(k2 == key for k2, _, _ in v2)
                small = ops[:step + 1]
                try:
                    small = shrink(small, pred, budget=150)
                except Exception:
                    pass
                self.viol_keys[key] = small
                ctx.violation(what, {"ops": jsonable(small), "text": K.seq_text(small), "key": key, "source": source},
                              kind="history", key=key)
        if mm is not None:
            self.mismatches.append((ops, mm))


def build(ctx):
    ok = True
    with core.BuildLock():
        # a refusal is the broken obligation itself; Props/C08_Shapes (the only file that reads Gen/C08_Shapes.v) is then not built
        shapes_ok = ctx.regen("c08_shapes", c08_shapes.generate)
        targets = TARGETS + (["Props/C08_Shapes.vo"] if shapes_ok else [])
        ctx.coq(targets, theorems_in={"Props/C08", "Props/C08_Shapes"})
        rc, out = core.sh("timeout 900 bash build.sh", cwd=os.path.join(core.VERIF, "ocaml", "C08"), timeout=930)
        ok = rc == 0 and os.path.exists(DRIVER)
        ctx.obligation("build:ocaml-driver-of-extracted-model", ok, out[-400:] if not ok else "")
    return ok


def small_scope_sequences():
    """every sequence of length <= 3 over a 12-operation alphabet on a 2-atom world with one selection"""
    prelude = [("NewStruct",), ("AddNewAtom", 0, (0, 1, 1, 8)), ("AddNewAtom", 0, (1, 2, 2, 4)), ("GetSlice", 0, (0, 1, None))]
    alpha = [
        ("SetLattice", 1, -2, False), ("Append", 1, (0, 1), False), ("Extend", 0, 1, 0), ("IAdd", 0, 0),
        ("SetSlice", 0, (0, 1, None), 0, True), ("Construct", 1, -1), ("Mul", 0, 2), ("Sub", 0, 1),
        ("DelInt", 0, 0), ("Pickle", 0, True), ("CopyInto", 0, 1), ("GetIdx", 0, False, [(0, 0), (0, 0)]),
    ]
    out = []
    for a in alpha:
        out.append(prelude + [a])
        for b in alpha:
            out.append(prelude + [a, b])
            for c in alpha:
                out.append(prelude + [a, b, c])
    return out


def run(ctx):
    ctx.trusted += [
        "Coq 8.16.1 kernel + vm_compute (no native_compute)",
        "extraction ExtrOcamlBasic (bool, option, list, prod, unit -> OCaml); nat, Z, positive as extracted inductives",
        "ocaml/C08/c08_driver.ml (line protocol parser/printer), vlib/c08_ops.py (executor, canonicalisation by first appearance, oracle)",
        "CPython list/pickle/copy protocol order and numpy index semantics are modelled by hand (checked by the correspondence only)",
    ]
    ctx.assumptions += [
        "atom payload is abstracted to the label (an integer tag); coordinates/ADPs are not part of C08",
        "objects are never freed in the model; the harness keeps every object alive so id() is a stable identity",
        "a call that has not returned after %.0f s wall-clock is taken as non-terminating" % K.ALARM_S,
        "lattice_inv is proved under the guard flag g_repoint (shared atoms cannot refer to two lattices: known finding D10)",
    ]
    if not build(ctx):
        return
    T = Tally(ctx)
    quick = ctx.tier == "quick"
    nseq = 6000 if quick else 60000
    maxlen = 12 if quick else 40
    budget_s = 110 if quick else 900
    t0 = time.time()

    # 1. corpus (minimised past disagreements and the defect witnesses), 2. small scope, 3. random
    corpus = []
    if os.path.isdir(CORPUS):
        for f in sorted(os.listdir(CORPUS)):
            if f.endswith(".json"):
                j = json.load(open(os.path.join(CORPUS, f)))
                corpus.append(([K.op_from_json(o) for o in j["ops"]], "corpus/" + f))
    fixed = corpus + [(s, "small-scope") for s in small_scope_sequences()]
    allow_self = True
    batch = []

    def flush():
        nonlocal batch
        if not batch:
            return
        rows = run_model([b[0] for b in batch])
        for (ops, snaps, finds, source), r in zip(batch, rows):
            mm, viol = judge(ops, snaps, finds, r)
            T.account(ops, snaps, r)
            pattern = tuple((o[0], s[0][0] if s[0][0] != "raise" else s[0][1]) for o, s in zip(ops, snaps))
            ctx.count(pattern)
            if mm is not None or viol:
                T.report(ops, mm, viol, source)
        batch = []

    ndiv = 0
    for ops, source in fixed:
        done, snaps, finds = run_real(ops, allow_self_extend=allow_self)
        if snaps and snaps[-1][0][0] == "div":
            ndiv += 1
            if ndiv >= 3:
                allow_self = False      # three witnesses are enough; each further one costs ALARM_S seconds
        batch.append((done, snaps, finds, source))
        if len(batch) >= 400:
            flush()
    flush()
    n_fixed = len(fixed)
    n_rand = 0
    while n_rand < nseq and time.time() - t0 < budget_s:
        L = ctx.rng.randint(4, maxlen)
        done, snaps, finds = run_real(None, rng=ctx.rng, maxlen=L, allow_self_extend=allow_self)
        if snaps and snaps[-1][0][0] == "div":
            ndiv += 1
            if ndiv >= 3:
                allow_self = False
        batch.append((done, snaps, finds, "random"))
        n_rand += 1
        if len(batch) >= 400:
            flush()
            ctx.sample({"ops": K.seq_text(done)})
    flush()

    # correspondence verdict; minimise the first disagreements and hand them to the finder
    ok = not T.mismatches
    detail = ""
    if T.mismatches:
        ops, mm = T.mismatches[0]

        def pred(c):
            m2, _ = check_sequence(c)
            return m2 is not None
        small = shrink(ops[:mm[0] + 1], pred, budget=200)
        m2, v2 = check_sequence(small)
        detail = "%d sequences disagree; minimised: %s ; %s" % (len(T.mismatches), K.seq_text(small), (m2 or mm)[1])
        ctx.notes.append({"disagreement": {"ops": jsonable(small), "text": K.seq_text(small), "detail": (m2 or mm)[1]}})
        # the finder has already looked at every step of these sequences (violations reported above)
    ctx.obligation("correspondence:model-vs-Structure-after-every-step", ok, detail)
    ctx.coverage.update({
        "rule": "operation sequences (corpus + all sequences of length <= 3 over a 12-operation alphabet on a 2-atom world with a shared "
                "selection + seeded random sequences generated online against the live objects, ~12% invalid indices/labels/shapes); "
                "distinct = distinct (operation name, outcome kind) patterns of a whole sequence",
        "sequences": n_fixed + n_rand, "random_sequences": n_rand, "steps_compared": T.steps,
        "operation_mix": dict(sorted(T.opcount.items())), "outcome_kinds": dict(sorted(T.outcomes.items())),
        "sequences_leaving_lattice_guard": T.flag_runs[0], "sequences_with_requested_duplicates": T.flag_runs[1],
        "disagreements": len(T.mismatches), "finder_keys": sorted(T.viol_keys),
        "self_extend_generation_switched_off": not allow_self,
    })
    ctx.evaluations += 0
    ctx.log("sequences %d (random %d), steps %d, disagreements %d, finder keys %s" % (
        n_fixed + n_rand, n_rand, T.steps, len(T.mismatches), sorted(T.viol_keys)))


def replay(ctx, case):
    """./check C08 --replay FILE : re-run exactly the stored history on the current tree"""
    if not build(ctx):
        return
    c = case.get("case", case)
    if "ops" not in c:
        ctx.log("replay file names a broken obligation, nothing to re-run: %s" % c)
        return
    ops = [K.op_from_json(o) for o in c["ops"]]
    T = Tally(ctx)
    done, snaps, finds = run_real(ops)
    rows = run_model([done])[0]
    mm, viol = judge(done, snaps, finds, rows)
    T.account(done, snaps, rows)
    ctx.count(("replay",))
    for k, (o, s) in enumerate(zip(done, snaps)):
        ctx.log("  %2d %-40s -> %s" % (k, K.op_text(o), s[0]))
    for key, what, step in viol:
        ctx.violation(what, {"ops": jsonable(done[:step + 1]), "text": K.seq_text(done[:step + 1]), "key": key}, kind="history", key=key)
    ctx.obligation("correspondence:model-vs-Structure-after-every-step", mm is None, mm[1] if mm else "")
