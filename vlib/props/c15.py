"""C15 - supercell expansion reproduces the same crystal on a larger cell.

Proof: Props/C15.v over Model/C15_Supercell.v, whose loop nest / coordinate formula / checks / setLatPar call shape are
translated from supercell_mod.py on every run (translate/c15_supercell.py).
Correspondence: random structures x multipliers (ints, floats, zeros, negatives, wrong length) against the model run
in exact rationals; the lattice facts the theorems assume (base' = diag(l,m,n) base, reciprocal lengths divided,
normbase unchanged) are validated on the live lattices.  Finder: the property text checked directly (Cartesian oracle,
payload, grouping, freshness by object identity, two-step factorizations).
"""
import copy
import json
import math
import re
from fractions import Fraction

import numpy

from translate import c15_supercell
from vlib import core
from vlib.props import c09 as h09

TARGETS = ["Props/C15.vo", "Props/C15_Bridge.vo"]
ELEMENTS = ["Ni", "Cd", "Se", "O", "Na+", "Cl-"]


# ---------------------------------------------------------------------------------------------- generators
def random_structure_spec(rng, max_atoms=5):
    lat = h09.random_latspec(rng)
    if lat is None:
        lat = {"kind": "par", "args": [1.0, 1.0, 1.0, 90.0, 90.0, 90.0]}
    if lat["kind"] == "base" and rng.random() < 0.6:
        lat = {"kind": "rebase", "base": lat["base"], "first": [2.0, 3.0, 4.0, 90.0, 90.0, 90.0]}
    n = rng.choice([0, 1, 1, 2, 3, 4, max_atoms])
    atoms = []
    for k in range(n):
        xyz = [round(rng.uniform(-0.3, 1.3), rng.choice([2, 4, 6])) for _ in range(3)]
        if rng.random() < 0.3:
            xyz = [rng.choice([0.0, 0.5, 0.25, 1.0 / 3, 2.0 / 3]) for _ in range(3)]
        at = {"element": rng.choice(ELEMENTS), "xyz": xyz, "label": "%s%d" % ("L", k), "occupancy": rng.choice([1.0, 0.5, 0.25]),
              "extra": {"tag": k, "note": "n%d" % rng.randint(0, 9)}}
        r = rng.random()
        if r < 0.4:
            at["U"] = h09.sym_tensor(rng, 0.01)
        elif r < 0.8:
            at["Uiso"] = round(rng.uniform(0.001, 0.05), 5)
        atoms.append(at)
    spec = {"lattice": lat, "atoms": atoms}
    if len(atoms) > 1 and rng.random() < 0.12:
        # the caller reuses ONE ndarray object for the coordinates (and one for the tensor) of every atom
        spec["shared_arrays"] = True
        for at in atoms[1:]:
            at["xyz"] = list(atoms[0]["xyz"])
            for k in ("U", "Uiso"):
                at.pop(k, None)
                if k in atoms[0]:
                    at[k] = atoms[0][k]
    return spec


def build_structure(spec):
    from diffpy.structure import Atom, Structure
    S = Structure(lattice=h09.make_lattice(spec["lattice"]))
    for at in spec["atoms"]:
        kw = {}
        if "U" in at:
            kw["U"] = numpy.array(at["U"]).reshape(3, 3)
        if "Uiso" in at:
            kw["Uisoequiv"] = at["Uiso"]
        a = Atom(at["element"], xyz=at["xyz"], label=at["label"], occupancy=at["occupancy"], **kw)
        S.append(a, copy=False)
        for k, v in at["extra"].items():
            setattr(S[-1], k, v)
    if spec.get("shared_arrays") and len(S) > 1:
        for a in S[1:]:
            a.xyz = S[0].xyz
            a._U = S[0]._U
    return S


def random_mno(rng):
    """(python value handed to supercell, description for the case file, list of exact rationals or None)"""
    r = rng.random()
    if r < 0.55:
        v = [rng.choice([1, 1, 2, 2, 3, 4]) for _ in range(3)]
    elif r < 0.62:
        v = [1, 1, 1]
    elif r < 0.72:
        v = [rng.choice([1, 2, 2.0, 2.7, 1.5, 3.999]) for _ in range(3)]
    elif r < 0.82:
        v = [rng.choice([1, 2, 0, -1, 0.5, 0.999, -2.5]) for _ in range(3)]
    elif r < 0.92:
        v = [rng.choice([1, 2, 3]) for _ in range(rng.choice([0, 1, 2, 4, 5]))]
    else:
        v = [rng.choice([1, 2, 3]), rng.choice([1, 2]), rng.choice([0, 1, 2])]
    kind = rng.choice(["list", "tuple", "array"])
    return {"values": v, "container": kind}


def mno_value(m):
    v = m["values"]
    if m["container"] == "tuple":
        return tuple(v)
    if m["container"] == "array":
        return numpy.array(v)
    return list(v)


# ---------------------------------------------------------------------------------------------- model side (Coq, exact rationals)
def qlit(x):
    fr = Fraction(x)
    if fr.denominator == 1:
        return "(%d)" % fr.numerator
    return "(%d # %d)" % (fr.numerator, fr.denominator)


def coq_case(spec, lat, mno, expected=None):
    atoms = "; ".join("Atom (GV %s %s %s) %d%%nat" % (qlit(a["xyz"][0]), qlit(a["xyz"][1]), qlit(a["xyz"][2]), k)
                      for k, a in enumerate(spec["atoms"]))
    a, b, c, al, be, ga = lat.abcABG()
    rot = numpy.array(lat.baserot, dtype=float)
    rotq = "(GM %s)" % " ".join("(GV %s %s %s)" % tuple(qlit(float(x)) for x in r) for r in rot)
    cell = "Cell %s %s" % (" ".join(qlit(float(x)) for x in (a, b, c, al, be, ga)), rotq)
    m = "[%s]" % "; ".join(qlit(float(x)) if isinstance(x, float) else qlit(int(x)) for x in mno["values"])
    call = "(supercell QOps (Struct [%s] (%s)) %s)" % (atoms, cell, m)
    if expected is None:
        return "Eval vm_compute in (out %s)." % call
    return "Eval vm_compute in (agree %s [%s])." % (call, "; ".join(qlit(x) for x in expected))


COQ_HEAD = """From Coq Require Import QArith Qabs ZArith List Bool.
From DS Require Import Base.C09_GNum Gen.C15_Spec Model.C15_Supercell.
Import ListNotations.
Open Scope Q_scope.
Definition fl (m : gmat Q) : list Q := [x0 (r0 m); x1 (r0 m); x2 (r0 m); x0 (r1 m); x1 (r1 m); x2 (r1 m); x0 (r2 m); x1 (r2 m); x2 (r2 m)].
Definition outq (r : result (structure Q nat)) : list Q :=
  match r with
  | ValueError => [0]
  | Ok St => let c := s_cell St in
            [1; c_a c; c_b c; c_c c; c_alpha c; c_beta c; c_gamma c] ++ fl (c_rot c) ++
            flat_map (fun a => [inject_Z (Z.of_nat (at_pay a)); x0 (at_xyz a); x1 (at_xyz a); x2 (at_xyz a)]) (s_atoms St)
  end.
Definition out (r : result (structure Q nat)) : list (Z * Z) := map (fun q => (Qnum q, Zpos (Qden q))) (outq r).
(* the comparison with the implementation's result (exact rationals of its doubles) is done by the kernel:
   same length and |model - implementation| <= 1e-12 * max(1, |implementation|) element-wise *)
Definition qmax1 (y : Q) : Q := if Qle_bool 1 (Qabs y) then Qabs y else 1.
Fixpoint agree_l (xs ys : list Q) : bool :=
  match xs, ys with
  | [], [] => true
  | x :: xr, y :: yr => Qle_bool (Qabs (x - y)) ((1 # 1000000000000) * qmax1 y) && agree_l xr yr
  | _, _ => false
  end.
Definition agree (r : result (structure Q nat)) (ys : list Q) : bool := agree_l (outq r) ys.
"""


def parse_qlists(out):
    res = []
    for blk in re.split(r"\n\s*: list \(Z \* Z\)\s*", "\n" + out):
        blk = blk.strip()
        if not blk.startswith("="):
            continue
        body = blk[1:].replace("\n", " ").replace("%Z", "")
        vals = []
        for tok in body.strip().strip("[]").split(";"):
            tok = tok.strip()
            if not tok:
                continue
            m = re.match(r"^(-?\d+),(\d+)$", tok.replace("(", "").replace(")", "").replace(" ", ""))
            if not m:
                raise ValueError("unparsable rational %r" % tok)
            vals.append(Fraction(int(m.group(1)), int(m.group(2))))
        res.append(vals)
    return res


# ---------------------------------------------------------------------------------------------- real side + finder
def snapshot(S):
    return {"n": len(S), "ids": [id(a) for a in S], "lat": tuple(S.lattice.abcABG()), "rot": numpy.concatenate([numpy.array(getattr(S.lattice, k), dtype=float).flatten() for k in ("baserot", "base", "recbase", "normbase", "recnormbase", "stdbase", "metrics", "isotropicunit")]),
            "latid": id(S.lattice), "atoms": [(a.element, a.label, a.occupancy, a.xyz.copy(), a._U.copy(), a.anisotropy, id(a.lattice),
                                                dict((k, v) for k, v in a.__dict__.items() if k not in ("xyz", "_U", "lattice")))
                                               for a in S]}


def same_snapshot(s1, s2):
    if s1["n"] != s2["n"] or s1["ids"] != s2["ids"] or s1["lat"] != s2["lat"] or s1["latid"] != s2["latid"] or (s1["rot"] != s2["rot"]).any():
        return False
    for x, y in zip(s1["atoms"], s2["atoms"]):
        if x[0:3] != y[0:3] or (x[3] != y[3]).any() or (x[4] != y[4]).any() or x[5:] != y[5:]:
            return False
    return True


def call_supercell(S, mno):
    from diffpy.structure.expansion import supercell
    try:
        return "ok", supercell(S, mno)
    except ValueError as e:
        return "ValueError", str(e)
    except Exception as e:      # anything else is not the documented rejection
        return type(e).__name__, str(e)


def expected_accept(values):
    return len(values) == 3 and all(x >= 1 for x in values)


def payload_equal(p, c):
    """element, label, occupancy, displacement parameters, flag and extra attributes of the copy equal the parent's"""
    if (p.element, p.label, p.occupancy, p.anisotropy) != (c.element, c.label, c.occupancy, c.anisotropy):
        return False
    from diffpy.structure import Atom
    # readables are taken from copies: reading Atom.U rewrites the storage of an isotropic atom
    # (an isotropic atom's tensor is value x unit tensor of ITS lattice: equal only up to rounding of the two lattices)
    if not numpy.allclose(numpy.array(Atom(p).U), numpy.array(Atom(c).U), rtol=1e-9, atol=0) \
            or abs(Atom(p).Uisoequiv - Atom(c).Uisoequiv) > 1e-9 * float(numpy.abs(Atom(p).U).max()):
        return False
    if not p.anisotropy and p._U[0, 0] != c._U[0, 0]:
        return False
    if p.anisotropy and not numpy.array_equal(numpy.array(p._U), numpy.array(c._U)):
        return False
    ex = lambda a: dict((k, v) for k, v in a.__dict__.items() if k not in ("xyz", "_U", "lattice"))  # noqa: E731
    return ex(p) == ex(c)


def check_property(S, before, mno, status, res):
    """The property text on the real objects; returns list of (clause, detail)."""
    bad = []
    vals = mno["values"]
    if not same_snapshot(before, snapshot(S)):
        bad.append(("input not modified", "the input structure changed"))
    if not expected_accept(vals):
        if status != "ValueError":
            bad.append(("rejects others", "multipliers %s: %s %s" % (vals, status, res if status != "ok" else "accepted")))
        return bad
    if status != "ok":
        bad.append(("accepts multipliers >= 1", "multipliers %s: %s %s" % (vals, status, res)))
        return bad
    l, m, n = (int(x) for x in vals)
    N = res
    if len(N) != l * m * n * len(S):
        bad.append(("count", "%d atoms, expected %d" % (len(N), l * m * n * len(S))))
        return bad
    B = numpy.array(S.lattice.base, dtype=float)
    scale = max(1.0, float(numpy.abs(B).max()) * max(l, m, n))
    per = l * m * n
    for p, a in enumerate(S):
        grp = [N[p * per + q] for q in range(per)]
        want = sorted(tuple(numpy.dot(a.xyz, B) + i * B[0] + j * B[1] + k * B[2]) for i in range(l) for j in range(m) for k in range(n))
        got = sorted(tuple(numpy.array(g.xyz_cartn, dtype=float)) for g in grp)
        if not numpy.allclose(numpy.array(want).reshape(-1, 3), numpy.array(got).reshape(-1, 3), rtol=0, atol=1e-9 * scale):
            bad.append(("image positions", "parent %d: Cartesian positions differ from parent + i a1 + j a2 + k a3" % p))
            break
        for g in grp:
            if not payload_equal(a, g):
                bad.append(("parent attributes", "image of parent %d does not carry its element/label/occupancy/U/flag/extras" % p))
                break
    a0, b0, c0, al, be, ga = S.lattice.abcABG()
    a1, b1, c1, al1, be1, ga1 = N.lattice.abcABG()
    if not numpy.allclose([a1, b1, c1], [l * a0, m * b0, n * c0], rtol=1e-12) or (al1, be1, ga1) != (al, be, ga):
        bad.append(("cell", "new cell %s from %s x %s" % ((a1, b1, c1, al1, be1, ga1), (a0, b0, c0, al, be, ga), (l, m, n))))
    if not numpy.array_equal(numpy.array(N.lattice.baserot), numpy.array(S.lattice.baserot)):
        bad.append(("orientation", "baserot changed"))
    if not numpy.allclose(N.lattice.base, numpy.diag([l, m, n]).dot(B), rtol=0, atol=1e-9 * scale):
        bad.append(("orientation", "base is not diag(l,m,n) base"))
    # tensors in Cartesian axes unchanged
    N0, _ = h09.own_normbase(S.lattice)
    N1, _ = h09.own_normbase(N.lattice)
    for p, a in enumerate(S):
        g = N[p * per]
        from diffpy.structure import Atom
        U0, U1 = numpy.array(Atom(a).U, dtype=float), numpy.array(Atom(g).U, dtype=float)
        if not numpy.allclose(N0.T.dot(U0).dot(N0), N1.T.dot(U1).dot(N1), rtol=1e-9, atol=1e-12 * max(1e-30, float(numpy.abs(U0).max()))):
            bad.append(("tensor in Cartesian axes", "parent %d" % p))
            break
    # shares nothing with the input
    sid = set(id(a) for a in S)
    arr = [a.xyz for a in S] + [a._U for a in S]
    if N is S or N.lattice is S.lattice:
        bad.append(("shares nothing", "result or its lattice is the input object"))
    for g in N:
        if id(g) in sid or g.lattice is not N.lattice or any(numpy.shares_memory(g.xyz, x) or numpy.shares_memory(g._U, x) for x in arr):
            bad.append(("shares nothing", "a result atom is an input atom, shares an array with one, or is not in the result's lattice"))
            break
    if len(set(id(g) for g in N)) != len(N) or len(set(id(g.xyz) for g in N)) != len(N):
        bad.append(("shares nothing", "result atoms share objects among themselves"))
    return bad


def independence_failures(S, N):
    """Editing the result must not change the input and vice versa (values and objects).  MUTATES both structures."""
    bad = []
    if N is S:
        return [("shares nothing", "the result is the input object")]
    s_before = snapshot(S)
    for g in N:
        g.xyz += 0.123
        g._U += 0.5
        g.element = "Zz"
        g.label = "edited"
        g.occupancy = 0.123
        g.tag = -7
    N.lattice.setLatPar(a=N.lattice.a * 1.25, gamma=N.lattice.gamma - 1.0)
    # re-orient the result (every matrix attribute of its lattice is rewritten), then rebuild it from a base
    N.lattice.setLatPar(baserot=numpy.array([[0.0, 1.0, 0.0], [-1.0, 0.0, 0.0], [0.0, 0.0, 1.0]]).dot(N.lattice.baserot))
    N.lattice.setLatBase(numpy.array(N.lattice.base)[[1, 2, 0]] * 1.5)
    if not same_snapshot(s_before, snapshot(S)):
        bad.append(("shares nothing", "editing the atoms/lattice of the result changed the input structure"))
    n_before = snapshot(N)
    for a in S:
        a.xyz -= 0.2
        a._U -= 0.3
        a.element = "Yy"
        a.occupancy = 0.77
    S.lattice.setLatPar(b=S.lattice.b * 0.8, alpha=S.lattice.alpha + 0.5)
    S.lattice.setLatPar(baserot=numpy.array([[1.0, 0.0, 0.0], [0.0, 0.0, 1.0], [0.0, -1.0, 0.0]]).dot(S.lattice.baserot))
    if not same_snapshot(n_before, snapshot(N)):
        bad.append(("shares nothing", "editing the atoms/lattice of the input changed the result"))
    objs = [id(g.xyz) for g in N] + [id(g._U) for g in N]
    if len(set(objs)) != len(objs):
        bad.append(("shares nothing", "two atoms of the result share a coordinate or tensor array"))
    return bad


def check_two_step(S, f1, f2):
    from diffpy.structure.expansion import supercell
    bad = []
    A = supercell(supercell(S, f1), f2)
    prod = [x * y for x, y in zip(f1, f2)]
    Bx = supercell(S, prod)
    if len(A) != len(Bx):
        return [("two steps = product", "%s then %s: %d atoms, one step %s: %d atoms" % (f1, f2, len(A), prod, len(Bx)))]
    if not numpy.allclose(A.lattice.abcABG(), Bx.lattice.abcABG(), rtol=1e-12) or not numpy.allclose(A.lattice.base, Bx.lattice.base, rtol=1e-9, atol=1e-9):
        bad.append(("two steps = product", "cells differ for %s then %s" % (f1, f2)))
    per = prod[0] * prod[1] * prod[2]
    scale = max(1.0, float(numpy.abs(Bx.lattice.base).max()))
    for p in range(len(S)):
        ga = sorted(tuple(numpy.array(g.xyz_cartn, dtype=float)) for g in A[p * per:(p + 1) * per])
        gb = sorted(tuple(numpy.array(g.xyz_cartn, dtype=float)) for g in Bx[p * per:(p + 1) * per])
        if not numpy.allclose(numpy.array(ga).reshape(-1, 3), numpy.array(gb).reshape(-1, 3), rtol=0, atol=1e-9 * scale):
            bad.append(("two steps = product", "parent %d: image sets differ for %s then %s" % (p, f1, f2)))
            break
        if any(not payload_equal(S[p], g) for g in A[p * per:(p + 1) * per]):
            bad.append(("two steps = product", "parent %d: attributes lost in two steps" % p))
            break
    return bad


def lattice_hypotheses(lat, l, m, n):
    """What Props/C15 assumes of the scaled lattice, on the live object."""
    from diffpy.structure import Lattice
    L2 = Lattice(lat)
    L2.setLatPar(a=l * lat.a, b=m * lat.b, c=n * lat.c)
    bad = []
    sc = max(1.0, float(numpy.abs(L2.base).max()))
    if not numpy.allclose(L2.base, numpy.diag([l, m, n]).dot(lat.base), rtol=0, atol=1e-9 * sc):
        bad.append("base' = diag(l,m,n) base")
    if not numpy.allclose([L2.ar, L2.br, L2.cr], [lat.ar / l, lat.br / m, lat.cr / n], rtol=1e-9):
        bad.append("reciprocal lengths divided by l, m, n")
    if not numpy.allclose(L2.normbase, lat.normbase, rtol=0, atol=1e-9):
        bad.append("normbase unchanged")
    if not numpy.allclose(L2.normbase, numpy.diag([L2.ar, L2.br, L2.cr]).dot(L2.base), rtol=0, atol=1e-9):
        bad.append("normbase = diag(ar,br,cr) base")
    if (L2.alpha, L2.beta, L2.gamma) != (lat.alpha, lat.beta, lat.gamma) or not numpy.array_equal(L2.baserot, lat.baserot):
        bad.append("angles and baserot kept by setLatPar(a=,b=,c=)")
    return bad


def report(ctx, case, fails):
    seen = ctx.__dict__.setdefault("_c15_seen", set())
    for cl, det in fails:
        if cl in seen:
            continue
        seen.add(cl)
        ctx.violation("%s: %s" % (cl, det), dict(case, clause=cl, detail=det), kind="input", key="clause:" + cl)
    return len(fails)


def run_cases(ctx, ncases, with_model):
    rng = ctx.rng
    cases, lines = [], []
    nviol = 0
    hyp_bad = []
    for _ in range(ncases):
        spec = random_structure_spec(rng)
        mno = random_mno(rng)
        S = build_structure(spec)
        before = snapshot(S)
        status, res = call_supercell(S, mno_value(mno))
        case = {"structure": spec, "mno": mno}
        fails = check_property(S, before, mno, status, res)
        vals = mno["values"]
        ctx.count(("case", len(spec["atoms"]), spec["lattice"]["kind"], "rot" in spec["lattice"], tuple(type(x).__name__ for x in vals),
                   tuple(min(int(x), 5) if x >= 1 else -1 for x in vals)))
        if status == "ok" and expected_accept(vals) and not fails:
            ints = [int(x) for x in vals]
            f2 = [rng.choice([1, 2]) for _ in range(3)]
            if len(S) * numpy.prod(ints) * numpy.prod(f2) <= 600:
                fails += check_two_step(S, ints, f2)
                ctx.count(("two-step", tuple(ints), tuple(f2)))
            hb = lattice_hypotheses(S.lattice, *ints)
            if hb:
                hyp_bad.append("%s x %s: %s" % (json.dumps(spec["lattice"])[:150], ints, hb))
        if status == "ok":
            S2 = build_structure(spec)
            st2, res2 = call_supercell(S2, mno_value(mno))
            if st2 == "ok":
                fails += independence_failures(S2, res2)
        nviol += report(ctx, case, fails)
        cases.append((case, S, status, res))
        lines.append(coq_case(spec, S.lattice, mno, expected_list(status, res)))
    ctx.obligation("hypotheses:scaled-lattice-relations-hold-on-live-lattices", not hyp_bad, "; ".join(hyp_bad[:3]))
    if not with_model:
        return nviol
    rc, out = ctx.coq_eval("c15_cases", COQ_HEAD + "\n".join(lines) + "\n", timeout=900)
    verdicts = re.findall(r"=\s*(true|false)\s*:\s*bool", out) if rc == 0 else []
    if rc != 0 or len(verdicts) != len(cases):
        ctx.obligation("correspondence:model-runs", False, "coqc rc=%s, %d results for %d cases: %s" % (rc, len(verdicts), len(cases), out[-400:]))
        return nviol
    badidx = [k for k, v in enumerate(verdicts) if v != "true"]
    detail = ""
    if badidx:
        case, S, status, res = cases[badidx[0]]
        rc2, out2 = ctx.coq_eval("c15_first_bad", COQ_HEAD + coq_case(case["structure"], S.lattice, case["mno"]) + "\n", timeout=300)
        try:
            mo = parse_qlists(out2)[0]
            model = "ValueError" if mo[0] == 0 else "cell %s, %d atoms, first atoms %s" % ([float(x) for x in mo[1:7]], (len(mo) - 16) // 4,
                                                                                         [float(x) for x in mo[16:28]])
        except Exception as e:
            model = "unparsed (%s)" % e
        impl = status if status != "ok" else "cell %s, %d atoms, first atoms %s" % (list(res.lattice.abcABG()), len(res),
                                                                                  [[getattr(a, "tag", -1)] + list(a.xyz) for a in res[:3]])
        detail = "model: %s ; implementation: %s ; case %s" % (model, impl, json.dumps(case)[:1200])
        ctx.sample({"disagreement": detail[:600]})
    ctx.obligation("correspondence:supercell-model-vs-implementation", not badidx, detail)
    return nviol


def expected_list(status, res):
    """The implementation's outcome in the layout of the model's `outq` (exact rationals of the doubles)."""
    if status == "ValueError":
        return [0]
    if status != "ok":
        return [2]
    out = [1] + [float(x) for x in res.lattice.abcABG()] + [float(x) for x in numpy.array(res.lattice.baserot, dtype=float).reshape(9)]
    for g in res:
        out += [int(getattr(g, "tag", -1))] + [float(x) for x in g.xyz]
    return out


def run(ctx):
    ctx.trusted += ["Coq 8.16.1 kernel; vm_compute; stdlib Reals axioms under the R statements",
                    "translate/c15_supercell.py (fail-closed recogniser of supercell's statements)",
                    "Model/C15_Supercell.v: value model of Structure(S), Atom(a) (payload copied as a whole), slice installation with copy=False",
                    "harness: generators, exact-rational encoding of float inputs, 1e-12 comparison, identity-based freshness checks"]
    ctx.assumptions += ["multipliers are finite Python ints/floats (rationals); other element types are outside the model",
                        "the scaled Lattice satisfies base' = diag(l,m,n) base, ar' = ar/l, ..., angles and baserot kept "
                        "(checked on the live lattices every run; their derivation from setLatPar is C10's subject)",
                        "freshness/aliasing and 'input not modified' are established by the correspondence run on object identities, not by a theorem",
                        "float coordinates: (x + i)/l is compared with the exact rational value to 1e-12"]
    quick = ctx.tier == "quick"
    with core.BuildLock():
        ok = ctx.regen("c15_supercell", c15_supercell.generate)
        from translate import lattice as _tl      # Props/C15_Bridge.v is about the setLatPar regenerated from lattice.py
        ok = ctx.regen("lattice", _tl.generate) and ok
        built = False
        if ok:
            built, _ = ctx.coq(TARGETS, theorems_in={"Props/C15", "Props/C15_Bridge"})
        n = 0
        for _ in range(1 if quick else 6):
            n += run_cases(ctx, 300 if quick else 700, with_model=bool(ok and built))
    if not (ok and built):
        ctx.obligation("correspondence:model-runs", False, "model not available")
    ctx.coverage.update({"exhaustive": False, "finder_violations": n,
                         "rule": "random structures (0..5 atoms, any cell incl. rotated/from base, iso/aniso, extra attributes) x multipliers "
                                 "(ints 1..4, floats, zeros, negatives, wrong length; list/tuple/array) x two-step factorizations; "
                                 "key = (#atoms, lattice kind, element types, clipped multipliers)"})
    ctx.sample({"structure": "2 atoms, a=3 b=4 c=5 alpha=80 beta=95 gamma=110 rotated", "mno": [2, 1, 3],
                "checked": "count, grouping, Cartesian images, payload, cell, baserot, U_cart, identities, two-step (2,1,3)x(1,2,1)"})


def replay(ctx, rep):
    case = rep.get("case", rep)
    S = build_structure(case["structure"])
    before = snapshot(S)
    status, res = call_supercell(S, mno_value(case["mno"]))
    fails = check_property(S, before, case["mno"], status, res)
    ctx.count()
    report(ctx, {"structure": case["structure"], "mno": case["mno"]}, fails)
    ctx.obligation("replay-completed", True)
