"""C04 - writing a structure and reading it back preserves everything the format carries;
repeated conversion never drifts, grows or fails.

Obligations
  translate:c04_fmt            fail-closed extraction of format strings / slices of the 7 parsers
  Props/C04:*                  Coq theorems (field codecs; record-level round trip, canon idempotence and
                               no-drift for xyz, rawxyz, pdffit, discus; pinned formats)
  build:ocaml-driver           extraction of the executable models
  correspondence:<fmt>:write   model text == Structure.writeStr(fmt), byte for byte
  correspondence:<fmt>:read    model read == attributes assigned by Structure.readStr, field for field
  correspondence:<fmt>:canon   model canon == model read(write) on representable inputs (definition check)
  geometry-hypotheses:<fmt>    the abstract-geometry hypotheses of the no-drift theorems hold on the live Lattice/Atom
Finder (alone decides a violation): the implementation's own readStr(writeStr(S)) x3 for all 7 formats,
checked against the property text with the pinned precisions (vlib/c04_gen.py).
"""
import json
import multiprocessing
import os
import random
import time

from translate import c04_fmt
from vlib import core

MODELLED = ["xyz", "rawxyz", "pdffit", "discus", "pdb", "xcfg", "cif"]
TARGETS = ["Model/C04_Wire.vo", "Props/C04.vo", "Props/C04_Pinned.vo"]

_model = None


def _get_model():
    global _model
    if _model is None:
        from vlib import c04_model
        _model = c04_model.Model()
    return _model


# ---------------------------------------------------------------------------------------------
# one case (runs inside a worker process)


def classify(fmt, s0, problems, info):
    """Stable keys for the problems of one case."""
    import numpy
    keys = []
    for kind, field, detail in problems:
        key = "%s:%s:%s" % (fmt, kind, field)
        if fmt == "cif" and len(s0) == 0 and kind == "fails":
            key = "cif:empty-structure"
        if fmt == "xcfg" and kind == "carried" and field == "position" and info.get("strus"):
            s1 = info["strus"][0]
            ax = [i for i in range(3) if all(a.xyz[i] == 0.0 for a in s0)]
            if ax and all(abs(b.xyz[i] - s1[0].xyz[i]) < 1e-9 and b.xyz[i] > 0 for b in s1 for i in ax) and \
                    all(abs(a.xyz[i] - b.xyz[i]) < 1e-7 * (abs(a.xyz[i]) + 4) for a, b in zip(s0, s1) for i in range(3) if i not in ax):
                key = "xcfg:origin-shift"
        keys.append((key, kind, field, detail))
    return keys


def geometry_hypotheses(fmt, s):
    """Check the hypotheses of the no-drift theorems on the live objects. Returns list of failures."""
    import numpy
    bad = []
    lat = s.lattice
    if fmt == "pdffit":
        iu = lat.isotropicunit
        if iu[0, 0] != 1.0 or iu[1, 1] != 1.0 or iu[2, 2] != 1.0:
            bad.append("isotropicunit diagonal is not exactly 1: %r" % (iu.diagonal(),))
        for a in s:
            u = float("%.8f" % a.U[0, 0])
            t = u * iu
            tq = numpy.array([[float("%.8f" % x) for x in row] for row in t])
            if lat.isanisotropic(tq):
                bad.append("printed isotropic tensor classified anisotropic: U11=%r cell=%r" % (u, lat.abcABG()))
    if fmt == "discus":
        for a in s:
            b1 = float("%.4f" % a.Bisoequiv)
            from diffpy.structure import Atom
            t = Atom("X", Uisoequiv=0.0)
            t.Bisoequiv = b1
            if "%.4f" % t.Bisoequiv != "%.4f" % b1:
                bad.append("Bisoequiv of a grid value leaves its grid point: %r -> %r" % (b1, t.Bisoequiv))
    if fmt == "pdb":
        # s is the RE-READ structure: Cartesian -> fractional -> Cartesian, B -> Uiso -> B and k -> k*1e-4 stay on the printed grid
        for a in s:
            c = a.xyz_cartn
            for v in c:
                g = float("%.3f" % v)
                if abs(g - v) > 1e-9 * max(1.0, abs(v)):
                    bad.append("re-read Cartesian coordinate %r is not on the 3-decimal grid" % float(v))
            if a.anisotropy:
                for x in numpy.ravel(a.U):
                    k = numpy.around(1e4 * x)
                    if abs(1e4 * x - k) > 1e-6:
                        bad.append("re-read U component %r is not k*1e-4" % float(x))
            else:
                if s.lattice.isanisotropic(a.U):
                    bad.append("re-read isotropic atom classified anisotropic")
                b = a.Bisoequiv
                if "%.2f" % b != "%.2f" % float("%.2f" % b) or abs(float("%.2f" % b) - b) > 1e-9 * max(1.0, abs(b)):
                    bad.append("re-read B %r is not on the 2-decimal grid" % b)
    return bad


def run_case(task):
    """task = (fmt, seed, mode, payload).  Returns a dict of counters and findings (picklable)."""
    fmt, seed, mode, payload = task
    do_model = True
    if mode == "gen":
        payload, do_model = payload
    from vlib import c04_gen as G
    out = {"fmt": fmt, "n": 0, "repr": 0, "outside": {}, "viol": [], "corr": [], "model_cases": 0, "model_skipped": 0,
           "meta": None, "geo": [], "sample": None, "strata": []}
    rng = random.Random(seed)
    if mode == "gen":
        s, meta = G.gen_structure(rng, fmt, hard=payload)
    else:
        s, meta = G.rebuild(payload), {"cell": "boundary", "natoms": len(payload["atoms"]), "adp": "b", "occ": "b", "ions": False, "pos": "boundary",
                                       "pdffit": payload["cls"] == "PDFFitStructure"}
    out["meta"] = meta
    out["n"] = 1
    why = G.representable(s, fmt)
    # ---- finder: the implementation against the property text
    problems, info = G.roundtrip_oracle(s, fmt)
    if why:
        out["outside"][why] = 1
    else:
        out["repr"] = 1
        out["strata"].append((fmt, meta["cell"], min(meta["natoms"], 3), meta["adp"], meta["occ"], meta["pos"]))
        for key, kind, field, detail in classify(fmt, s, problems, info):
            out["viol"].append({"key": key, "what": "%s %s/%s: %s" % (fmt, kind, field, detail), "fmt": fmt, "kind": kind,
                                "structure": G.describe(s), "seed": seed})
    # ---- correspondence with the Coq model
    if fmt in MODELLED and do_model:
        from vlib import c04_model as M
        import re as _re
        date = None
        if fmt == "cif":
            try:
                with G.quiet():
                    date = _re.search(r"_audit_creation_date\s+(\S+)", s.writeStr("cif")).group(1)
            except Exception:   # noqa: BLE001
                date = None
        view = M.view_cif(s, date) if fmt == "cif" else M.VIEWS[fmt](s)
        if view is not None and all(M.ascii_ok(x) for x in view) and not (fmt == "pdb" and M.pdb_has_sigmas(s)):
            m = _get_model()
            real = None
            try:
                with G.quiet():
                    real = s.writeStr(fmt)
            except Exception:   # noqa: BLE001
                real = None
            mw = m.call(fmt, "write", view)
            if mw is None:
                out["model_skipped"] = 1      # outside the model's range (e.g. %g exponent form)
            else:
                out["model_cases"] = 1
                if real is None or mw[0] != real:
                    out["corr"].append(("write", "model text differs from writeStr", G.describe(s),
                                        {"model": mw[0][:400], "impl": (real or "<exception>")[:400]}))
                else:
                    rv = None
                    try:
                        s1 = G.read_str(real, fmt)
                        rv = True if fmt in M.READ_DIFF else M.RAW_VIEWS.get(fmt, M.VIEWS[fmt])(s1)
                    except Exception as e:   # noqa: BLE001
                        rv = None
                    mr = m.call(fmt, "read", [real])
                    if (mr is None) != (rv is None):
                        out["corr"].append(("read", "model %s, implementation %s" % ("rejects" if mr is None else "accepts",
                                                                                       "rejects" if rv is None else "accepts"),
                                            G.describe(s), {"text": real[:400]}))
                    elif mr is not None:
                        d = M.READ_DIFF[fmt](mr, s1) if fmt in M.READ_DIFF else M.tokens_equal(fmt, mr, rv)
                        if d:
                            out["corr"].append(("read", d, G.describe(s), {"text": real[:400]}))
                    if fmt == "cif" and mr is not None:
                        mt = m.call("cif", "tokens", [real])
                        d = M.cif_tokens_diff(mt, real) if mt else "model cannot tokenise the written text"
                        if d:
                            out["corr"].append(("tokens", d, G.describe(s), {"text": real[:400]}))
                    rp = m.call(fmt, "repr", view)
                    if rp == ["1"]:
                        mc = m.call(fmt, "canon", view)
                        if mc != mr:
                            out["corr"].append(("canon", "canon differs from read(write)", G.describe(s), {}))
                    if rv is not None and not why:       # the hypotheses concern representable structures only
                        for msg in geometry_hypotheses(fmt, s1):
                            out["geo"].append(msg)
                        # the re-read structure as an input of the writer model (stored auxiliaries, flipped flags ...)
                        v1 = M.view_cif(s1, date) if fmt == "cif" else M.VIEWS[fmt](s1)
                        if v1 is not None and all(M.ascii_ok(x) for x in v1):
                            w1 = m.call(fmt, "write", v1)
                            try:
                                with G.quiet():
                                    real1 = s1.writeStr(fmt)
                            except Exception:   # noqa: BLE001
                                real1 = None
                            if w1 is not None and (real1 is None or w1[0] != real1):
                                out["corr"].append(("write", "model text differs from writeStr on the re-read structure", G.describe(s),
                                                    {"model": w1[0][:400], "impl": (real1 or "<exception>")[:400]}))
                if out["sample"] is None and real is not None and len(s) <= 2:
                    out["sample"] = {"format": fmt, "text": real[:300]}
    return out


# ---------------------------------------------------------------------------------------------
# width-boundary sweep: magnitudes straddling each column limit and rounding carries


def boundary_cases():
    from vlib import c04_gen as G
    from diffpy.structure import Lattice, Structure
    cases = []
    # empty structures (with and without a title), one atom at the origin
    for ttl in ("", "empty"):
        for cell in ((1, 1, 1, 90, 90, 90), (4, 5, 6, 90, 100, 90)):
            s = Structure(lattice=Lattice(*cell))
            s.title = ttl
            cases.append(G.describe(s))
    mags = [0.0, 1e-9, 4.9999e-5, 5.0001e-5, 0.0004999, 0.0005001, 0.99999949, 0.99999951, 0.999999995, 9.9999995, 9.99999951,
            99.9994, 99.9996, 99.99949999, 999.9994, 999.9996, 9999.9994, 1234.5678, 99999.4, 123456.7, 999999.4, 999999.6, 1e7]
    for v in mags:
        for sgn in (1, -1):
            x = sgn * v
            for cell in ((1, 1, 1, 90, 90, 90), (10, 10, 10, 90, 90, 90), (3.3, 4.4, 5.5, 80, 95, 100)):
                s = Structure(lattice=Lattice(*cell))
                s.title = "boundary"
                s.addNewAtom("C", xyz=[x, 0.25, 0.5])
                s.addNewAtom("O", xyz=[0.125, x, 0.75], occupancy=0.5)
                cases.append(G.describe(s))
    for occ in [0.0, 0.00004, 0.00005, 0.004, 0.005, 0.995, 0.99995, 1.0, 9.994, 9.996, 99.994, 99.996]:
        s = Structure(lattice=Lattice(4, 5, 6, 90, 90, 90))
        s.addNewAtom("Ni", xyz=[0.1, 0.2, 0.3], occupancy=occ)
        cases.append(G.describe(s))
    for u in [1e-9, 4.9e-9, 5.1e-9, 4.99e-5, 5.01e-5, 0.00049, 0.00051, 0.0126651, 0.012665, 0.9, 1.2665, 9.99994, 12.0]:
        for lat in ((4, 5, 6, 90, 90, 90), (4, 5, 6, 70, 80, 100)):
            s = Structure(lattice=Lattice(*lat))
            s.addNewAtom("Ni", xyz=[0.1, 0.2, 0.3], Uisoequiv=u)
            s.addNewAtom("O", xyz=[0.6, 0.7, 0.8], U=[[u, u / 3, -u / 5], [u / 3, 2 * u, 0.0], [-u / 5, 0.0, u / 2]])
            cases.append(G.describe(s))
    for a in [0.9999994, 9.9999995, 99.9994, 99.9996, 999.9994, 999.9996, 9999.9994, 99999.9, 123456.789]:
        s = Structure(lattice=Lattice(a, a / 2 + 1, a / 3 + 1, 90, 90, 90))
        s.addNewAtom("C", xyz=[0.1, 0.2, 0.3])
        cases.append(G.describe(s))
    return cases


# ---------------------------------------------------------------------------------------------


def build(ctx):
    """Regenerate Gen/, compile the theorems and the executable model; returns True iff the extracted
    driver corresponds to the current source (never use a stale model)."""
    if not ctx.regen("c04_fmt", c04_fmt.generate):
        return False
    ctx.coq(TARGETS, theorems_in={"Props/C04", "Props/C04_Pinned"})
    # the extracted model may be used only if Model/C04_Wire.vo was rebuilt after every source it depends on
    vo = os.path.join(core.COQ, "Model", "C04_Wire.vo")
    deps = [os.path.join(core.COQ, "Gen", "C04_FmtSpecs.v")] + \
           [os.path.join(core.COQ, d, f) for d in ("Base", "Model") for f in os.listdir(os.path.join(core.COQ, d))
            if f.startswith("C04_") and f.endswith(".v") and f != "C04_Pinned.v"]
    wire_ok = os.path.exists(vo) and all(os.path.getmtime(vo) >= os.path.getmtime(d) for d in deps)
    if not wire_ok:
        ctx.obligation("build:ocaml-driver", False, "Model/C04_Wire.vo not rebuilt from the current source")
        return False
    rc, out = core.sh("timeout 600 bash build.sh", cwd=os.path.join(core.VERIF, "ocaml", "C04"), timeout=630)
    ctx.obligation("build:ocaml-driver", rc == 0 and "built" in out, out[-400:])
    return rc == 0 and "built" in out


def run(ctx, only=None):
    from vlib import c04_gen as G
    ctx.trusted += [
        "Coq 8.16.1 kernel + vm_compute (no native_compute)",
        "translate/c04_fmt.py (fail-closed ast extraction of format strings, literals, slices, argument roles)",
        "extraction: ExtrOcamlBasic + ExtrOcamlString (ascii -> char, string -> char list); N, Z, positive, nat stay extracted inductives; "
        "ocaml/C04/driver.ml (hex line protocol) is trusted glue",
        "CPython '%' formatting and float()/int() are modelled (Base/C04_Decimal.v) and compared byte-for-byte / value-for-value on every case",
        "views (vlib/c04_model.py): the quantities each writer reads, taken from the live objects (a.xyz_cartn, a.U, a.Bisoequiv, lattice.abcABG) "
        "as exact decimal expansions of the doubles",
    ]
    ctx.assumptions += [
        "representable range per format: vlib/c04_gen.representable (finder) and repr_<fmt> in Model/C04_*.v (theorems); inputs outside are counted, not judged",
        "pinned precisions (vlib/c04_gen.PREC, Model/C04_Pinned.v) define 'the precision the format prints'",
        "pdffit/discus no-drift theorems hold for any geometry satisfying the stated hypotheses; the hypotheses are checked on the live Lattice/Atom for every generated case",
        "pdb, xcfg, cif: correspondence level only (implementation round trips against the property text); cif positions compared modulo 1 (reader reduces sites into the cell)",
        "rotated lattice bases are outside the representable range of formats that store cell parameters only (pdffit, discus, pdb, cif)",
    ]
    with core.BuildLock():
        built = build(ctx)

    n = 300 if ctx.tier == "quick" else 10000
    tasks = []
    for fmt in G.FORMATS:
        for i in range(n):
            # thorough tier: the (slower) model correspondence runs on every third case, the finder on all
            tasks.append((fmt, ctx.rng.getrandbits(48), "gen", ((i % 3 == 0), ctx.tier == "quick" or i % 3 == 0)))
    bcases = boundary_cases()
    if ctx.tier == "quick":
        bcases = bcases[:4] + bcases[4::4]
    for fmt in G.FORMATS:
        for d in bcases:
            tasks.append((fmt, 0, "boundary", d))
    if not built:
        # without the model only the finder runs
        pass
    t0 = time.time()
    procs = min(core.NPROC, 16)
    with multiprocessing.Pool(procs) as pool:
        results = pool.map(run_case, tasks, chunksize=max(1, len(tasks) // (procs * 8)))
    ctx.log("ran %d cases on %d processes in %.1fs" % (len(tasks), procs, time.time() - t0))

    per = {f: {"cases": 0, "representable": 0, "model_cases": 0, "model_outside_range": 0, "outside": {}} for f in G.FORMATS}
    corr = {}
    geo = {}
    dist = {"cell": {}, "natoms": {}, "adp": {}, "occ": {}, "pos": {}}
    seen_keys = {}
    for r in results:
        p = per[r["fmt"]]
        p["cases"] += r["n"]
        p["representable"] += r["repr"]
        p["model_cases"] += r["model_cases"]
        p["model_outside_range"] += r["model_skipped"]
        for k, v in r["outside"].items():
            p["outside"][k] = p["outside"].get(k, 0) + v
        for st in r["strata"]:
            ctx.count(st)
        ctx.count(n=r["model_cases"] * 3)
        m = r["meta"]
        for k in dist:
            dist[k][str(m[k])] = dist[k].get(str(m[k]), 0) + 1
        for c in r["corr"]:
            corr.setdefault((r["fmt"], c[0]), []).append(c)
        for g in r["geo"]:
            geo.setdefault(r["fmt"], []).append(g)
        if r["sample"]:
            ctx.sample(r["sample"])
        for v in r["viol"]:
            if v["key"] not in seen_keys:
                seen_keys[v["key"]] = v
            seen_keys[v["key"]]["count"] = seen_keys[v["key"]].get("count", 0) + 1
    for fmt in MODELLED:
        for part in ("write", "read", "tokens" if fmt == "cif" else "canon"):
            bad = corr.get((fmt, part), [])
            detail = ""
            if bad:
                detail = "%d cases, first: %s | %s" % (len(bad), bad[0][1], json.dumps(bad[0][3])[:300])
                os.makedirs(os.path.join(core.VERIF, "corpus", "C04"), exist_ok=True)
            ctx.obligation("correspondence:%s:%s" % (fmt, part), built and not bad and per[fmt]["model_cases"] > 0,
                           detail or ("" if built else "model not built"))
        ctx.obligation("geometry-hypotheses:%s" % fmt, not geo.get(fmt), "; ".join(geo.get(fmt, [])[:3]))
    for key, v in sorted(seen_keys.items()):
        ctx.violation("%s (%d cases)" % (v["what"], v["count"]), {"format": v["fmt"], "structure": v["structure"], "seed": v["seed"], "key": key},
                      kind="input", key=key)
    ctx.coverage.update({
        "per_format": per, "input_distribution": dist,
        "rule": "distinct_nontrivial = distinct (format, cell system, min(natoms,3), ADP mix, occupancy mix, position range) strata among representable cases",
        "finder": "readStr(writeStr(S)) x3 on the implementation for all 7 formats, compared with S to the pinned precision; text and structure stationary from trip 2",
        "modelled_formats": MODELLED, "correspondence_only_formats": [f for f in G.FORMATS if f not in MODELLED],
        "boundary_cases": len(bcases),
    })


def replay(ctx, case):
    """Re-run exactly one recorded case against the current tree."""
    from vlib import c04_gen as G
    c = case.get("case", {})
    if "structure" not in c:
        ctx.log("replay file names a broken obligation, re-running the whole check")
        return run(ctx)
    s = G.rebuild(c["structure"])
    fmt = c["format"]
    problems, info = G.roundtrip_oracle(s, fmt)
    why = G.representable(s, fmt)
    ctx.count(("replay", fmt))
    ctx.obligation("replay:oracle-ran", True, "replay of one recorded case; run ./check C04 for the full obligations")
    ctx.sample({"format": fmt, "representable": why or True, "problems": [list(p) for p in problems[:5]]})
    if not why:
        for key, kind, field, detail in classify(fmt, s, problems, info):
            ctx.violation("%s %s/%s: %s" % (fmt, kind, field, detail), {"format": fmt, "structure": c["structure"], "key": key}, key=key)
