"""C06 - displacement-parameter symmetry constraints are sound and complete.

Theorems: coq/Props/C06.v (soundness of the certificate checker Model/C06_UCert.v, rot_conj_invariant).
Tie: Gen/SGTables regenerated from the source; the extracted checker is run on Uspace/Uparameters/Uij/eqUij/Uisotropy/
UFormula() of the real GeneratorSite for every setting x discovered site-symmetry stratum and a random input tensor;
SymmetryConstraints / ExpandAsymmetricUnit tensors on unions of orbits.
Finder: exact group average as oracle (allowed input unchanged, stored tensor invariant, rotated tensors, flag)."""
from vlib import c0506_run


def run(ctx):
    c0506_run.run_property(ctx, "C06")


def replay(ctx, case):
    c0506_run.replay_property(ctx, "C06", case)
