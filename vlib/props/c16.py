"""C16 - loading and saving are all-or-nothing and do not depend on the object's past.

Proof: Props/C16.v about the statement lists generated from the current source (translate/c16_rw.py).
Correspondence: the model (Model/C16_ReadWriteTxn.v run on the generated lists) against the real
read/readStr/write on random prior contents x sources x formats x entry points.
Finder: the property stated directly on the real code.
"""
import copy
import json
import os
import re

import numpy

from translate import c16_rw
from vlib import core

TARGETS = ["Props/C16.vo", "Proofs/C16_Examples.vo", "Proofs/C16_HeapExamples.vo", "Proofs/C16_HeapC08.vo"]
MAX_PER_KEY = 3          # concrete inputs reported per violation key (all are counted)
ELEMENTS = ["C", "Ni", "O", "Na", "Cl", "Fe", "H", "Si", "Ti", "Ba"]
TITLES = ["", "", "alpha", "Ni fcc", "old title", "phase 2 (annealed)", "x"]
EXT = {"cif": ".cif", "pdb": ".pdb", "discus": ".stru", "pdffit": ".stru", "rawxyz": ".xyz", "xyz": ".xyz", "xcfg": ".xcfg"}


# ----------------------------------------------------------------------------------------------
# snapshots of real objects
# ----------------------------------------------------------------------------------------------

def snap(v):
    from diffpy.structure import Atom, Lattice
    if isinstance(v, numpy.ndarray):
        return ("nd", tuple(v.shape), tuple(repr(x) for x in v.ravel().tolist()))
    if isinstance(v, bool) or v is None or isinstance(v, (int, str)):
        return v
    if isinstance(v, float):
        return ("f", repr(v))
    if isinstance(v, dict):
        return ("dict", tuple(sorted(((snap(k), snap(x)) for k, x in v.items()), key=repr)))
    if isinstance(v, (list, tuple)):
        return (type(v).__name__, tuple(snap(x) for x in v))
    if isinstance(v, Lattice):
        return ("Lattice", tuple(repr(float(x)) for x in v.abcABG()), snap(v.baserot))
    if isinstance(v, Atom):
        return ("Atom", atom_payload(v))
    return ("obj", type(v).__name__, repr(v)[:200])


def atom_payload(a):
    """Everything an atom carries except the lattice reference."""
    d = dict(a.__dict__)
    d.pop("lattice", None)
    if not a._anisotropy and isinstance(d.get("_U"), numpy.ndarray) and d["_U"].shape == (3, 3):
        # isotropic atom: only _U[0, 0] carries data, the rest is a cache that the U getter refills
        d["_U"] = ("iso", repr(float(d["_U"][0, 0])))
    base = (("element", a.element), ("label", a.label), ("occupancy", snap(a.occupancy)), ("anisotropy", bool(a._anisotropy)))
    return base + tuple(sorted(((k, snap(v)) for k, v in d.items()), key=repr))


def items_of(s):
    return list(list.__iter__(s))


def full_snapshot(s):
    """Identity and content of everything a failed read must leave alone."""
    return {
        "atoms": [(id(a), atom_payload(a), id(a.lattice)) for a in items_of(s)],
        "lattice": (id(s.__dict__.get("_lattice")), snap(s.__dict__.get("_lattice"))),
        "title": snap(s.title),
        "dict": {k: snap(v) for k, v in s.__dict__.items()},
        "dict_ids": {k: id(v) for k, v in s.__dict__.items() if isinstance(v, (dict, list))},
    }


def first_difference(b, a):
    for k in ("atoms", "lattice", "title", "dict", "dict_ids"):
        if b[k] != a[k]:
            if k == "atoms":
                if [x[0] for x in b[k]] != [x[0] for x in a[k]]:
                    return "atoms", "atom objects %d -> %d / identities changed" % (len(b[k]), len(a[k]))
                if [x[2] for x in b[k]] != [x[2] for x in a[k]]:
                    return "atom-lattice", "atoms re-pointed to another lattice object"
                return "atom-data", "atom data changed"
            if k == "dict":
                names = sorted(set(b[k]) | set(a[k]))
                bad = [n for n in names if b[k].get(n, "<absent>") != a[k].get(n, "<absent>")]
                return "attr:" + bad[0], "instance attribute %s: %r -> %r" % (bad[0], b[k].get(bad[0], "<absent>"), a[k].get(bad[0], "<absent>"))
            return k, "%s: %r -> %r" % (k, b[k], a[k])
    return None


def observable(s, ignore=()):
    """What a successful read must make equal to the same read into a new object."""
    lat = s.__dict__.get("_lattice")
    return {
        "class": type(s).__name__,
        "atoms": [atom_payload(a) for a in items_of(s)],
        "lattice": snap(lat),
        "title": snap(s.title),
        "pdffit": snap(s.pdffit),
        "attrs": {k: snap(v) for k, v in s.__dict__.items() if k not in ignore and k != "_lattice"},
    }


# ----------------------------------------------------------------------------------------------
# random cases (JSON-able specs, rebuilt deterministically)
# ----------------------------------------------------------------------------------------------

def rand_lattice(rng):
    from diffpy.structure import Lattice
    for _ in range(50):
        if rng.random() < 0.4:
            ang = [90.0, 90.0, 90.0]
        else:
            ang = [round(rng.uniform(65, 115), 2) for _ in range(3)]
        par = [round(rng.uniform(2.5, 11.0), 3) for _ in range(3)] + ang
        try:
            Lattice(*par)
            return par
        except Exception:
            continue
    return [3.0, 4.0, 5.0, 90.0, 90.0, 90.0]


def rand_atoms(rng, nmin=0, nmax=5):
    out = []
    for i in range(rng.randint(nmin, nmax)):
        a = {"el": rng.choice(ELEMENTS), "xyz": [round(rng.uniform(0, 1), 4) for _ in range(3)],
             "label": rng.choice(["", "", "A%d" % i, rng.choice(ELEMENTS) + str(i + 1)]),
             "occ": rng.choice([1.0, 1.0, 0.5, 0.25]), "U": None}
        if rng.random() < 0.3:
            u = [round(rng.uniform(0.002, 0.02), 4) for _ in range(3)]
            o = [round(rng.uniform(-0.001, 0.001), 4) for _ in range(3)]
            a["U"] = [[u[0], o[0], o[1]], [o[0], u[1], o[2]], [o[1], o[2], u[2]]]
        elif rng.random() < 0.4:
            a["Uiso"] = round(rng.uniform(0.002, 0.02), 4)
        out.append(a)
    return out


def rand_spec(rng, nmin=0, cls=None):
    spec = {"cls": cls or rng.choice(["Structure", "PDFFitStructure"]), "atoms": rand_atoms(rng, nmin),
            "lattice": rand_lattice(rng), "title": rng.choice(TITLES), "pdffit": None, "extras": {}, "preload": None}
    if spec["cls"] == "PDFFitStructure" or rng.random() < 0.15:
        pf = {}
        if rng.random() < 0.7:
            pf["scale"] = round(rng.uniform(0.5, 9.0), 3)
        if rng.random() < 0.4:
            pf["spcgr"] = rng.choice(["Fm-3m", "P63/mmc", "Pnma"])
        if rng.random() < 0.3:
            pf["delta2"] = round(rng.uniform(0, 3), 2)
        if rng.random() < 0.2:
            pf["dcell"] = [round(rng.uniform(0, 0.1), 3) for _ in range(6)]
        if rng.random() < 0.15:
            pf["stale_entry"] = 1
        spec["pdffit"] = pf
    if rng.random() < 0.2:
        spec["extras"]["note"] = rng.choice(["keep me", 17, [1, 2]])
    return spec


def build(spec):
    """Structure object from a spec (no randomness)."""
    from diffpy.structure import Atom, Lattice, PDFFitStructure, Structure
    cls = {"Structure": Structure, "PDFFitStructure": PDFFitStructure}[spec["cls"]]
    s = cls()
    if spec.get("preload"):
        with quiet():
            s.readStr(spec["preload"]["text"], spec["preload"]["format"])
    if spec.get("lattice") is not None:
        s.lattice = Lattice(*spec["lattice"])
    for a in spec.get("atoms", []):
        kw = {}
        if a.get("U") is not None:
            kw["U"] = numpy.array(a["U"], dtype=float)
        elif a.get("Uiso") is not None:
            kw["Uisoequiv"] = a["Uiso"]
        s.addNewAtom(a["el"], xyz=a["xyz"], label=a["label"], occupancy=a["occ"], **kw)
    if spec.get("title") is not None:
        if spec["title"] != "" or spec.get("preload"):
            s.title = spec["title"]
    if spec.get("pdffit") is not None:
        if s.pdffit is None:
            s.pdffit = {}
        s.pdffit.update(copy.deepcopy(spec["pdffit"]))
    if spec.get("pdffit_none"):
        s.pdffit = None
    if spec.get("lattice_none"):
        s.lattice = None
    for k, v in spec.get("extras", {}).items():
        setattr(s, k, copy.deepcopy(v))
    return s


def written_text(rng, fmt):
    """Valid text of the given format: what the library writes for a random structure."""
    for _ in range(20):
        spec = rand_spec(rng, nmin=1)
        try:
            return build(spec).writeStr(fmt)
        except Exception:
            continue
    return None


def damage(rng, text):
    """Make the text invalid at a random record (the result may still parse: then it is one more valid source)."""
    lines = text.split("\n")
    if lines and lines[-1] == "":
        lines.pop()
    n = len(lines)
    how = rng.choice(["truncate", "corrupt", "delete", "token", "empty", "garbage"])
    if n == 0 or how == "empty":
        return "", "empty"
    k = rng.randrange(n)
    if how == "truncate":
        return "\n".join(lines[:k]) + ("\n" if k else ""), "truncate@%d" % k
    if how == "corrupt":
        lines[k] = rng.choice(["@@ not a record @@", "1 2 three 4", "\x00\x01", "loop_ _x"])
        return "\n".join(lines) + "\n", "corrupt@%d" % k
    if how == "delete":
        del lines[k]
        return "\n".join(lines) + "\n", "delete@%d" % k
    if how == "token":
        toks = lines[k].split(" ")
        idx = [i for i, t in enumerate(toks) if re.match(r"^-?\d", t)]
        if idx:
            toks[rng.choice(idx)] = rng.choice(["x.y", "--", "1e", "NaN?"])
            lines[k] = " ".join(toks)
            return "\n".join(lines) + "\n", "token@%d" % k
        lines[k] = lines[k][: len(lines[k]) // 2]
        return "\n".join(lines) + "\n", "halfline@%d" % k
    return "".join(chr(rng.randrange(33, 126)) for _ in range(rng.randint(5, 60))) + "\n", "garbage"


FIXED_READ_CASES = [
    # D11 as first reported: instance title survives a format whose result carries none
    {"prior": {"cls": "Structure", "atoms": [], "lattice": None, "title": "old", "pdffit": None, "extras": {}, "preload": None},
     "text": "C 0 0 0\nC 1 1 1\n", "format": "rawxyz", "entry": "str", "filename": "d11a.xyz", "note": "D11 title"},
    {"prior": {"cls": "PDFFitStructure", "atoms": [], "lattice": None, "title": "", "pdffit": {"scale": 7.0}, "extras": {}, "preload": None},
     "text": "C 0 0 0\nC 1 1 1\n", "format": "rawxyz", "entry": "str", "filename": "d11b.xyz", "note": "D11 pdffit"},
    {"prior": {"cls": "Structure", "atoms": [{"el": "Ni", "xyz": [0, 0, 0], "label": "", "occ": 1.0, "U": None}],
               "lattice": [3.52, 3.52, 3.52, 90, 90, 90], "title": "nickel", "pdffit": {"scale": 2.0, "spcgr": "Fm-3m"}, "extras": {}, "preload": None},
     "text": "C 0 0 0\nC 1 1 1\n", "format": "rawxyz", "entry": "file", "filename": "carbon.xyz", "note": "D11 title from file name"},
    {"prior": {"cls": "Structure", "atoms": [{"el": "Ni", "xyz": [0, 0, 0], "label": "", "occ": 1.0, "U": None}],
               "lattice": [3.52, 3.52, 3.52, 90, 90, 90], "title": "nickel", "pdffit": None, "extras": {"note": "keep me"}, "preload": None},
     "text": "2\nbroken\nC 0 0\n", "format": "xyz", "entry": "str", "filename": "bad.xyz", "note": "invalid xyz"},
    {"prior": {"cls": "PDFFitStructure", "atoms": [{"el": "Ni", "xyz": [0, 0, 0], "label": "", "occ": 1.0, "U": None}],
               "lattice": [3.52, 3.52, 3.52, 90, 90, 90], "title": "nickel", "pdffit": {"scale": 2.0}, "extras": {}, "preload": None},
     "text": "C 0 0 0\n", "format": "nosuch", "entry": "str", "filename": "x.xyz", "note": "unknown format"},
    {"prior": {"cls": "PDFFitStructure", "atoms": [{"el": "Ni", "xyz": [0, 0, 0], "label": "", "occ": 1.0, "U": None}],
               "lattice": [3.52, 3.52, 3.52, 90, 90, 90], "title": "nickel", "pdffit": {"scale": 2.0}, "extras": {}, "preload": None},
     "text": "C 0 0 0\n", "format": "rawxyz", "entry": "missing-file", "filename": "absent.xyz", "note": "missing file"},
    {"prior": {"cls": "Structure", "atoms": [{"el": "Ni", "xyz": [0, 0, 0], "label": "", "occ": 1.0, "U": None}],
               "lattice": None, "title": "no lattice", "pdffit": None, "extras": {}, "preload": None, "lattice_none": True},
     "text": "2\nbroken\nC 0 0\n", "format": "xyz", "entry": "str", "filename": "bad.xyz", "note": "invalid xyz into lattice None"},
    # P_cif returns None for CIF text without atom sites: the target must end up like a new object
    {"prior": {"cls": "Structure", "atoms": [{"el": "Ni", "xyz": [0, 0, 0], "label": "", "occ": 1.0, "U": None}],
               "lattice": [3.52, 3.52, 3.52, 90, 90, 90], "title": "nickel", "pdffit": None, "extras": {}, "preload": None},
     "text": "data_empty\n_cell_length_a 5\n", "format": "cif", "entry": "str", "filename": "empty.cif", "note": "cif without atom sites"},
]


def rand_read_case(rng, i, texts):
    from diffpy.structure.parsers import inputFormats
    fmts = [f for f in inputFormats() if f != "auto"]
    prior = rand_spec(rng)
    if rng.random() < 0.25:                       # the target has been loaded before
        pf = rng.choice(fmts)
        t = texts.get(pf) and rng.choice(texts[pf])
        if t:
            prior = {"cls": prior["cls"], "atoms": rand_atoms(rng, 0, 2), "lattice": None, "title": rng.choice(TITLES),
                     "pdffit": prior["pdffit"] if rng.random() < 0.5 else None, "extras": prior["extras"],
                     "preload": {"text": t, "format": pf}}
    if prior["cls"] == "PDFFitStructure" and rng.random() < 0.04:
        prior["pdffit_none"] = True
    if rng.random() < 0.04:
        prior["lattice_none"] = True          # a structure whose lattice was set to None
    fmt = rng.choice(fmts)
    text = rng.choice(texts[fmt]) if texts.get(fmt) else "C 0 0 0\n"
    kind = "valid"
    if rng.random() < 0.45:
        text, kind = damage(rng, text)
    r = rng.random()
    rfmt = fmt if r < 0.6 else "auto" if r < 0.85 else rng.choice(fmts) if r < 0.96 else "nosuch"
    r = rng.random()
    entry = "str" if r < 0.5 else "file" if r < 0.96 else "missing-file"
    fname = rng.choice(["case%d" % i, "data_%d" % i, "My Sample %d" % i]) + rng.choice([EXT[fmt], EXT[fmt], ".dat", ""])
    return {"prior": prior, "text": text, "format": rfmt, "entry": entry, "filename": fname, "note": "%s %s" % (fmt, kind)}


# ----------------------------------------------------------------------------------------------
# running one read case on the real code
# ----------------------------------------------------------------------------------------------

class quiet:
    """PyCifRW prints `SYNTAX ERROR AT LINE ...` chatter on stdout / stderr; keep it out of the check output."""

    def __enter__(self):
        import io
        import sys
        self.saved = (sys.stdout, sys.stderr)
        sys.stdout, sys.stderr = io.StringIO(), io.StringIO()

    def __exit__(self, *a):
        import sys
        sys.stdout, sys.stderr = self.saved


def do_read(s, case, path):
    with quiet():
        if case["entry"] == "str":
            return s.readStr(case["text"], case["format"])
        return s.read(path, case["format"])


def under_cap(ctx, key):
    seen = ctx.__dict__.setdefault("_c16_seen", {})
    seen[key] = seen.get(key, 0) + 1
    return seen[key] <= MAX_PER_KEY


def probe_none(case, path):
    from diffpy.structure.parsers import getParser
    try:
        with quiet():
            p = getParser(case["format"])
            r = p.parse(case["text"]) if case["entry"] == "str" else p.parseFile(path)
        return r is None
    except Exception:
        return False


def case_path(ctx, case):
    d = os.path.join(ctx.tmp, "reads")
    os.makedirs(d, exist_ok=True)
    path = os.path.join(d, case["filename"])
    if case["entry"] == "file":
        with open(path, "w") as f:
            f.write(case["text"])
    elif os.path.exists(path):
        os.remove(path)
    return path


def short(case):
    c = dict(case)
    c["text"] = case["text"] if len(case["text"]) < 1500 else case["text"][:1500] + "...[cut]"
    return c


def real_read_case(ctx, case, report=True):
    """Property on the real code.  Returns a dict with everything the correspondence needs."""
    from diffpy.structure import PDFFitStructure, Structure
    path = case_path(ctx, case)
    target = build(case["prior"])
    prior_ids = {id(a): i + 1 for i, a in enumerate(items_of(target))}
    prior_lat = target.__dict__.get("_lattice")
    before = full_snapshot(target)
    keep = {"atoms": items_of(target), "dict": dict(target.__dict__)}     # keep every prior object alive (stable ids)
    err = None
    rparser = None
    try:
        rparser = do_read(target, case, path)
    except Exception as e:                                                   # any exception type counts as "read failed"
        err = e
    cls = {"Structure": Structure, "PDFFitStructure": PDFFitStructure}[case["prior"]["cls"]]
    fresh = cls()
    ferr = None
    try:
        do_read(fresh, case, path)
    except Exception as e:
        ferr = e
    found = []
    none_result = []

    def viol(key, what, extra):
        if key.startswith(("success-differs:", "stale-instance-attr:")):
            # is this the parser handing back None instead of a structure (P_cif on text without atom sites)?
            if not none_result:
                none_result.append(probe_none(case, path))
            if none_result[0]:
                what += "  [the parser returned None for this source]"
        found.append(key)
        if report and under_cap(ctx, key):
            d = {"case": short(case)}
            d.update(extra)
            ctx.violation(what, d, kind="input", key=key)

    tag = "%s(%s).%s(%r)" % (case["prior"]["cls"], case["note"], "readStr" if case["entry"] == "str" else "read", case["format"])
    if (err is None) != (ferr is None):
        viol("outcome-depends-on-prior" + (":pdffit-none" if case["prior"].get("pdffit_none") else ""),
             "%s: the read %s in the used object but %s in a new one" % (tag, "failed with %r" % err if err else "succeeded",
                                                                       "failed with %r" % ferr if ferr else "succeeded"),
             {"error": repr(err), "fresh_error": repr(ferr)})
    if err is not None:
        after = full_snapshot(target)
        diff = first_difference(before, after)
        if diff:
            viol("failed-read-changed:" + diff[0], "%s failed with %s but the structure changed: %s" % (tag, type(err).__name__, diff[1]),
                 {"error": repr(err), "changed": diff[1]})
    elif ferr is None:
        ignore = set(case["prior"].get("extras", {}))
        o1, o2 = observable(target, ignore), observable(fresh, ignore)
        if o1["atoms"] != o2["atoms"]:
            viol("success-differs:atoms", "%s: atoms differ from the same read into a new object (%d vs %d atoms)" % (tag, len(o1["atoms"]), len(o2["atoms"])),
                 {"got": repr(o1["atoms"])[:600], "fresh": repr(o2["atoms"])[:600]})
        if o1["lattice"] != o2["lattice"]:
            viol("success-differs:lattice", "%s: lattice differs from the same read into a new object" % tag, {"got": repr(o1["lattice"]), "fresh": repr(o2["lattice"])})
        if o1["title"] != o2["title"]:
            viol("stale-instance-attr:title", "%s: title is %r, the same read into a new %s gives %r" % (tag, target.title, cls.__name__, fresh.title),
                 {"got": repr(target.title), "fresh": repr(fresh.title)})
        if o1["pdffit"] != o2["pdffit"]:
            viol("stale-instance-attr:pdffit", "%s: pdffit is %r, the same read into a new %s gives %r" % (tag, target.pdffit, cls.__name__, fresh.pdffit),
                 {"got": repr(target.pdffit), "fresh": repr(fresh.pdffit)})
        for k in sorted(set(o1["attrs"]) | set(o2["attrs"])):
            if k in ("title", "pdffit"):
                continue
            if o1["attrs"].get(k, "<absent>") != o2["attrs"].get(k, "<absent>"):
                viol("stale-instance-attr:" + k, "%s: instance attribute %s is %r, in a new object %r" % (tag, k, o1["attrs"].get(k, "<absent>"), o2["attrs"].get(k, "<absent>")), {})
    if err is None:
        bad = [i for i, a in enumerate(items_of(target)) if a.lattice is not target.lattice]
        if bad:
            viol("atom-lattice-not-target", "%s: atom %d refers to a lattice that is not the target's lattice" % (tag, bad[0]), {"atoms": bad})
    return {"target": target, "err": err, "parser": rparser, "prior_ids": prior_ids, "prior_lat": prior_lat, "path": path, "found": found, "keep": keep,
            "before": before}


# ----------------------------------------------------------------------------------------------
# abstraction into the Coq model
# ----------------------------------------------------------------------------------------------

class Interner:
    def __init__(self):
        self.t = {}

    def __call__(self, v):
        k = repr(v)
        if k not in self.t:
            self.t[k] = len(self.t) + 1
        return self.t[k]


NAMES = ["title", "pdffit", "xcfg", "_lattice"]


def name_code(n, names):
    if n not in names:
        names.append(n)
    return names.index(n)


def z(n):
    return "(%d)" % n


def is_ident(k):
    return isinstance(k, str) and re.match(r"^[A-Za-z_][A-Za-z0-9_]*$", k) is not None


class Abs:
    """Abstraction of the objects of one case into model terms / expected encodings."""

    def __init__(self, names):
        self.val = Interner()
        self.lat_ids = {}
        self.names = names

    def text(self, s):
        return 0 if s == "" else self.val(("text", s))

    def lat_id(self, lat):
        if lat is None:
            return 0
        if id(lat) not in self.lat_ids:
            self.lat_ids[id(lat)] = 100 + len(self.lat_ids)
        return self.lat_ids[id(lat)]

    def value(self, k, v):
        """-> (coq term, encoding row tail given prior lattice id)"""
        from diffpy.structure import Lattice
        if v is None:
            return "VNone", lambda pl: [0]
        if isinstance(v, Lattice):
            i, c = self.lat_id(v), self.val(snap(v))
            return "VLat %s %s" % (z(i), z(c)), lambda pl: [2, 0 if i == pl else 1, c]
        if isinstance(v, str):
            t = self.text(v)
            return "VStr %s" % z(t), lambda pl: [1, t]
        if isinstance(v, dict) and all(is_ident(x) for x in v):
            kv = [(x, self.val(snap(y))) for x, y in v.items()]
            enc = []
            for x, y in sorted(kv, key=lambda q: name_code(q[0], self.names)):
                enc += [name_code(x, self.names), y]
            return "VDict [%s]" % "; ".join('("%s", %s)' % (x, z(y)) for x, y in kv), lambda pl: [3] + enc
        n = self.val(snap(v)) if v else 0
        return "VOther %s" % z(n), lambda pl: [4, n]

    def inst(self, d):
        terms, rows = [], []
        for k, v in d.items():
            if not is_ident(k):
                raise ValueError("attribute name not an identifier: %r" % (k,))
            t, enc = self.value(k, v)
            terms.append('("%s", %s)' % (k, t))
            rows.append((name_code(k, self.names), enc))
        return "[%s]" % "; ".join(terms), rows

    def atom(self, a, ident):
        return "{| a_id := %s; a_payload := %s; a_lat := %s |}" % (z(ident), z(self.val(atom_payload(a))), z(self.lat_id(a.lattice)))


def cls_term(s):
    from diffpy.structure import PDFFitStructure
    return "CPDFFit" if isinstance(s, PDFFitStructure) else "CStructure"


def obj_term(ab, s, ids):
    inst, _ = ab.inst(s.__dict__)
    return "{| o_cls := %s; o_items := [%s]; o_inst := %s |}" % (
        cls_term(s), "; ".join(ab.atom(a, ids[id(a)]) for a in items_of(s)), inst)


def encode_real(ab, status, exc, s, prior_ids, prior_lat_id):
    """Encoding of the real post-state, same layout as C16 cases `encode` in Coq."""
    rows = [[status, exc, 1 if cls_term(s) == "CPDFFit" else 0, len(items_of(s))]]
    own = s.__dict__.get("_lattice")
    for a in items_of(s):
        rows.append([ab.val(atom_payload(a)), 1 if (a.lattice is own) else 0, prior_ids.get(id(a), -1)])
    _, irows = ab.inst(s.__dict__)
    for code, enc in sorted(irows, key=lambda r: r[0]):
        rows.append([code] + enc(prior_lat_id))
    return rows


COQ_HEADER = r"""
From Coq Require Import ZArith List Bool.
From Coq Require Import Ascii String.
From DS Require Import Model.C16_ReadWriteTxn Gen.C16_RW Model.C16_Methods.
Import ListNotations.
Open Scope string_scope.
Open Scope Z_scope.
Definition names : list string := [%(names)s].
Fixpoint idx (s : string) (l : list string) (i : Z) : Z :=
  match l with [] => -1 | k :: r => if String.eqb s k then i else idx s r (i + 1) end.
Definition code (s : string) : Z := idx s names 0.
Fixpoint flat (d : list (string * Z)) : list Z := match d with [] => [] | (k, v) :: r => code k :: v :: flat r end.
Fixpoint insert_row (r : list Z) (l : list (list Z)) : list (list Z) :=
  match l with [] => [r] | x :: t => if (hd 0 r <=? hd 0 x) then r :: l else x :: insert_row r t end.
Definition sort_rows (l : list (list Z)) : list (list Z) := fold_right insert_row [] l.
Fixpoint insert_kv (r : string * Z) (l : list (string * Z)) : list (string * Z) :=
  match l with [] => [r] | x :: t => if (code (fst r) <=? code (fst x)) then r :: l else x :: insert_kv r t end.
Definition enc_value (pl : Z) (v : value) : list Z :=
  match v with
  | VNone => [0] | VStr s => [1; s] | VLat i c => [2; if i =? pl then 0 else 1; c]
  | VDict d => 3 :: flat (fold_right insert_kv [] d) | VOther n => [4; n]
  end.
Definition enc_obj (pl : Z) (prior : list Z) (o : obj) : list (list Z) :=
  map (fun a => [a_payload a; if a_lat a =? lat_id o then 1 else 0; if existsb (Z.eqb (a_id a)) prior then a_id a else -1]) (o_items o)
  ++ sort_rows (map (fun kv => code (fst kv) :: enc_value pl (snd kv)) (o_inst o)).
Definition enc (pl : Z) (prior : list Z) (r : outcome) : list (list Z) :=
  match r with
  | Done f => [0; 0; match o_cls (f_self f) with CPDFFit => 1 | CStructure => 0 end; Z.of_nat (List.length (o_items (f_self f)))] :: enc_obj pl prior (f_self f)
  | Failed x f => [1; x; match o_cls (f_self f) with CPDFFit => 1 | CStructure => 0 end; Z.of_nat (List.length (o_items (f_self f)))] :: enc_obj pl prior (f_self f)
  end.
Definition enc_w (r : outcome) : list Z :=
  match r with Done f => 0 :: 0 :: map snd (f_fs f) | Failed x f => 1 :: x :: map snd (f_fs f) end.
Definition const_parser (out : parse_out) (ts : res Z) : parser :=
  {| ps_parse := fun _ => out; ps_parsefile := fun _ _ => out; ps_tostring := fun _ _ => ts |}.
Definition mkenv (gp : res parser) (title : Z) (pd : list (string * Z)) (cell : Z) : env :=
  {| e_getparser := fun _ => gp; e_title_of := fun _ => title; e_open_w := fun _ => Ok tt; e_default_pdffit := pd; e_default_cell := cell;
     e_new_lattice := 900 |}.
Definition G0 : args := {| g_filename := 1; g_source := 1; g_format := 1 |}.
(* heap interpreter (Model/C16_Heap.v): identity pattern and payloads of the target after the read *)
From DS Require Model.C08_StructHeap Model.C16_Heap.
Module H := C08_StructHeap.
Module HM := C16_Heap.
Definition enc_h (n0 : nat) (r : option HM.hstate) : list (list Z) :=
  match r with
  | None => [[1]]
  | Some s =>
      [0; Z.of_nat (List.length (HM.self_items s));
       (match HM.self_lat s, HM.new_lat s with Some a, Some b => if Nat.eqb a b then 1 else 0 | _, _ => 0 end);
       (match HM.self_cell s with Some c => c | None => 0 end)]
      :: map (fun a => let p := H.tag_of (HM.hs_world s) a in
                       [H.p_elem p; H.p_label p; H.p_xyz p; H.p_occ p;
                        if Nat.leb n0 a then 1 else 0;
                        match H.lat_of (HM.hs_world s) a, HM.self_lat s with Some x, Some y => if Nat.eqb x y then 1 else 0 | _, _ => 0 end])
             (HM.self_items s)
  end.
"""


def parse_rows(out):
    """`= [[[1; 2]; [3]]; ...]` printed by Eval vm_compute -> nested python lists (all results of the file)."""
    res = []
    for m in re.finditer(r"=\s*(\[.*?\])\s*:\s*list", out, re.S):
        txt = m.group(1).replace(";", ",")
        res.append(json.loads(re.sub(r"\s+", " ", txt)))
    return res


def exc_code(ab, e):
    return ab.val(("exc", type(e).__name__))


def model_read_case(ctx, case, real, names):
    """-> (coq term computing the model's encoding, expected encoding from the real run)."""
    from diffpy.structure import Lattice, PDFFitStructure
    from diffpy.structure.parsers import getParser
    ab = Abs(names)
    prior = build(case["prior"])                       # an identical prior, abstracted before any read
    ids = {id(a): i + 1 for i, a in enumerate(items_of(prior))}
    prior_lat_id = ab.lat_id(prior.__dict__.get("_lattice")) if prior.__dict__.get("_lattice") is not None else -5
    oterm = obj_term(ab, prior, ids)
    oracle = {"ok": False, "result": None, "sg": None}
    # the oracle: what getParser / parse do for this source (a separate parser object)
    try:
        p = getParser(case["format"])
        try:
            with quiet():
                r = p.parse(case["text"]) if case["entry"] == "str" else p.parseFile(real["path"])
            oracle.update(ok=True, result=r)
            if r is None:
                res = "Ok None"
            else:
                pids = {id(a): 1000 + i for i, a in enumerate(items_of(r))}
                inst, _ = ab.inst(r.__dict__)
                res = "Ok (Some {| p_cls := %s; p_items := [%s]; p_inst := %s |})" % (
                    cls_term(r), "; ".join(ab.atom(a, pids[id(a)]) for a in items_of(r)), inst)
        except Exception as e:
            res = "Raise %s" % z(exc_code(ab, e))
        sg = getattr(p, "spacegroup", None)
        sgt = "Some %s" % z(ab.val(snap(sg.short_name))) if sg else "None"
        oracle["sg"] = sgt
        gp = "Ok (const_parser {| po_result := %s; po_sg := %s |} (Raise 0))" % (res, sgt)
    except Exception as e:
        gp = "Raise %s" % z(exc_code(ab, e))
    base = os.path.splitext(os.path.basename(real["path"]))[0]
    dpd = PDFFitStructure().pdffit
    env = "mkenv (%s) %s [%s] %s" % (gp, z(ab.text(base)), "; ".join('("%s", %s)' % (k, z(ab.val(snap(v)))) for k, v in dpd.items()),
                                     z(ab.val(snap(Lattice()))))
    en = "ReadStr" if case["entry"] == "str" else "ReadFile"
    term = "enc %s [%s] (run_read (%s) G0 %s %s (frame_of %s [] 5000))" % (
        z(prior_lat_id), "; ".join(z(i) for i in sorted(ids.values())), env, cls_term(prior), en, oterm)
    # expected: the real post-state in the same abstraction; identities are translated through position in the prior
    t = real["target"]
    err = real["err"]
    # lattice identity: the real prior lattice object corresponds to the rebuilt prior's lattice
    if real["prior_lat"] is not None:
        ab.lat_ids[id(real["prior_lat"])] = prior_lat_id
    exp = encode_real(ab, 1 if err is not None else 0, exc_code(ab, err) if err is not None else 0, t, real["prior_ids"], prior_lat_id)
    heap = None
    if err is None and oracle["ok"]:
        heap = heap_read_case(ab, case, real, prior, oracle, "mkenv (%s) %s [%s] %s" % (
            "Raise 0", z(ab.text(base)), "; ".join('("%s", %s)' % (k, z(ab.val(snap(v)))) for k, v in dpd.items()), z(ab.val(snap(Lattice())))), en)
    return term, exp, heap


def pay_term(ab, a):
    """(element, label, xyz, occupancy) of an atom as a C08 payload with interned components."""
    comps = [ab.val(("el", snap(a.element))), ab.val(("label", snap(a.label))), ab.val(("xyz", snap(a.xyz))), ab.val(("occ", snap(a.occupancy)))]
    return "H.mkPay %s %s %s %s" % tuple(z(c) for c in comps), comps


def heap_read_case(ab, case, real, prior, oracle, env, en):
    """The prior target and the parser result as a C08 world; expected identity pattern from the real objects."""
    from diffpy.structure import Lattice
    r = oracle["result"]
    lats = {}                                    # lattice objects -> lid, the target's first, then the result's

    def lid(lat):
        if lat is None:
            return None
        if id(lat) not in lats:
            lats[id(lat)] = (len(lats), lat)
        return lats[id(lat)][0]

    plat = prior.__dict__.get("_lattice")
    latnone = plat is None
    self_l = lid(plat) if not latnone else lid(Lattice())          # a placeholder lattice when the entry is None
    cells, n = [], 0
    self_items = []
    for a in items_of(prior):
        l = lid(a.lattice)
        cells.append("H.mkCell (%s) %s" % (pay_term(ab, a)[0], "None" if l is None else "(Some %d%%nat)" % l))
        self_items.append(n)
        n += 1
    objs = ["H.OStruct [%s] %d%%nat" % ("; ".join("%d%%nat" % i for i in self_items), self_l)]
    new = "None"
    nmeta = "[]"
    if r is not None:
        rl = lid(r.__dict__.get("_lattice"))
        if rl is None:
            return None
        ritems = []
        for a in items_of(r):
            l = lid(a.lattice)
            cells.append("H.mkCell (%s) %s" % (pay_term(ab, a)[0], "None" if l is None else "(Some %d%%nat)" % l))
            ritems.append(n)
            n += 1
        objs.append("H.OStruct [%s] %d%%nat" % ("; ".join("%d%%nat" % i for i in ritems), rl))
        new = "(Some 1%nat)"
        nmeta = ab.inst({k: v for k, v in r.__dict__.items() if k != "_lattice"})[0]
    meta = "{| o_cls := %s; o_items := []; o_inst := %s |}" % (cls_term(prior), ab.inst({k: v for k, v in prior.__dict__.items() if k != "_lattice"})[0])
    lcells = "; ".join("(%d%%nat, %s)" % (i, z(ab.val(snap(lat)))) for i, lat in sorted(lats.values(), key=lambda q: q[0]))
    world = "H.mkW [%s] %d%%nat [%s] false false" % ("; ".join(cells), len(lats), "; ".join(objs))
    term = "enc_h %d%%nat (HM.hrun_read (%s) G0 %s %s (HM.mkHS (%s) 0%%nat %s %s %s %s [%s] %s))" % (
        n, env, cls_term(prior), en, world, new, nmeta, meta, "true" if latnone else "false", lcells, "(%s)" % (oracle["sg"] or "None"))
    # expected, from the real objects after the read
    t = real["target"]
    own = t.__dict__.get("_lattice")
    rp = real.get("parser")
    rstru = getattr(rp, "stru", None)
    if rstru is not None and hasattr(rstru, "lattice"):
        same = 1 if own is rstru.lattice else 0            # the target's lattice IS the parser result's lattice object
    else:
        same = 1 if own is not real["prior_lat"] else 0     # the parser does not keep its result: at least not the old object
    exp = [[0, len(items_of(t)), same, ab.val(snap(own)) if own is not None else 0]]
    for a in items_of(t):
        exp.append(pay_term(ab, a)[1] + [1 if id(a) not in real["prior_ids"] else 0, 1 if a.lattice is own else 0])
    return term, exp


# ----------------------------------------------------------------------------------------------
# writes
# ----------------------------------------------------------------------------------------------

SPOILERS = ["none", "none", "empty", "element-none", "title-none", "pdffit-bad", "occ-str", "xyz-short", "lattice-none", "last-atom-bad"]


def spoil(s, how):
    if how == "empty":
        del s[:]
    elif how == "element-none" and len(s):
        s[0].element = None
    elif how == "title-none":
        s.title = None
    elif how == "pdffit-bad":
        s.pdffit = {"scale": "big"}
    elif how == "occ-str" and len(s):
        s[-1].occupancy = "full"
    elif how == "xyz-short" and len(s):
        s[len(s) // 2].xyz = numpy.array([0.0, 0.5])
    elif how == "lattice-none":
        s.lattice = None
    elif how == "last-atom-bad" and len(s):
        s[-1].xyz = numpy.array([0.0])
    return s


def rand_write_case(rng, i):
    from diffpy.structure.parsers import outputFormats
    r = rng.random()
    fmt = rng.choice(outputFormats()) if r < 0.85 else rng.choice(["nosuch", "auto", ""])
    old = rng.choice(["precious old content %d\n" % i, "", "line1\nline2\n", None])
    return {"spec": rand_spec(rng, nmin=1), "spoil": rng.choice(SPOILERS), "format": fmt, "old": old, "filename": "out%d%s" % (i, EXT.get(fmt, ".dat"))}


def real_write_case(ctx, case, report=True):
    d = os.path.join(ctx.tmp, "writes")
    os.makedirs(d, exist_ok=True)
    path = os.path.join(d, case["filename"])
    if os.path.exists(path):
        os.remove(path)
    if case["old"] is not None:
        with open(path, "wb") as f:
            f.write(case["old"].encode("utf-8"))
    s = spoil(build(case["spec"]), case["spoil"])
    before = full_snapshot(s)
    keep = (items_of(s), dict(s.__dict__))
    # oracle: does producing the text fail (separate call, no file involved)
    try:
        text = s.writeStr(case["format"])
        terr = None
    except Exception as e:
        text, terr = None, e
    err = None
    try:
        s.write(path, case["format"])
    except Exception as e:
        err = e
    now = open(path, "rb").read().decode("utf-8") if os.path.exists(path) else None
    found = []

    def viol(key, what, extra):
        found.append(key)
        if report and under_cap(ctx, key):
            x = {"case": case}
            x.update(extra)
            ctx.violation(what, x, kind="input", key=key)

    tag = "write(%r) of %s structure [%s]" % (case["format"], case["spec"]["cls"], case["spoil"])
    if err is not None:
        if now != case["old"]:
            viol("failed-write-changed-file", "%s failed with %s but the existing file changed: %r -> %r" % (
                tag, type(err).__name__, case["old"], None if now is None else now[:80]), {"error": repr(err)})
        if first_difference(before, full_snapshot(s)):
            viol("failed-write-changed-structure", "%s failed and changed the structure" % tag, {"error": repr(err)})
    else:
        if terr is not None:
            viol("write-succeeded-though-text-fails", "%s succeeded though writeStr raises %r" % (tag, terr), {})
        elif now != text:
            viol("write-content", "%s: file content differs from writeStr" % tag, {"file": (now or "")[:200]})
    if terr is not None and err is None:
        pass
    del keep
    return {"err": err, "terr": terr, "text": text, "now": now, "found": found}


def model_write_case(case, real):
    intern = Interner()

    def ab(v):
        return 0 if v == ("content", "") else intern(v)       # the empty content is 0 in the model (a truncated file)

    old = 0 if case["old"] is None else ab(("content", case["old"]))
    # tostring oracle
    from diffpy.structure.parsers import getParser
    try:
        getParser(case["format"])
        if real["terr"] is not None:
            ts = "Raise %s" % z(ab(("exc", type(real["terr"]).__name__)))
        else:
            ts = "Ok %s" % z(ab(("content", real["text"])))
        gp = "Ok (const_parser {| po_result := Raise 0; po_sg := None |} (%s))" % ts
    except Exception as e:
        gp = "Raise %s" % z(ab(("exc", type(e).__name__)))
    fs = "[(1, %s)]" % z(old) if case["old"] is not None else "[]"
    term = "enc_w (run_write (mkenv (%s) 0 [] 0) G0 (frame_of {| o_cls := CStructure; o_items := []; o_inst := [] |} %s 1))" % (gp, fs)
    err = real["err"]
    now = real["now"]
    exp = [1 if err is not None else 0, ab(("exc", type(err).__name__)) if err is not None else 0]
    if now is not None:
        exp.append(ab(("content", now)))
    return term, exp


# ----------------------------------------------------------------------------------------------
# driver
# ----------------------------------------------------------------------------------------------

def coq_compare(ctx, label, items, names, per_file=150):
    """items: list of (term, expected, case).  Returns the list of disagreeing cases."""
    bad = []
    for k in range(0, len(items), per_file):
        chunk = items[k:k + per_file]
        text = COQ_HEADER % {"names": "; ".join('"%s"' % n for n in names)}
        text += "\n".join("Eval vm_compute in (%s)." % t for t, _, _ in chunk) + "\n"
        rc, out = ctx.coq_eval("c16_%s_%d" % (label, k), text, timeout=600)
        got = parse_rows(out) if rc == 0 else []
        if rc != 0 or len(got) != len(chunk):
            ctx.obligation("correspondence:%s-model-evaluates" % label, False, "coqc rc=%s, %d results for %d cases: %s" % (rc, len(got), len(chunk), out[-400:]))
            return bad, False
        for (t, exp, case), g in zip(chunk, got):
            # exceptions raised by the interpreter itself have fixed negative codes; map the real type onto them
            if g and isinstance(g[0], list) and len(g[0]) > 1 and g[0][0] == 1 and g[0][1] < 0 and isinstance(exp[0], list):
                own = {"NameError": -1, "UnboundLocalError": -1, "AttributeError": -2, "TypeError": -3}
                exp = [[exp[0][0], own.get(case.get("_exc"), exp[0][1])] + exp[0][2:]] + exp[1:]
            if g != exp:
                bad.append((case, g, exp))
    return bad, True


def model_built():
    vo = os.path.join(core.COQ, "Model", "C16_Methods.vo")
    return os.path.exists(vo) and os.path.getmtime(vo) >= os.path.getmtime(os.path.join(core.GEN, "C16_RW.v"))


def run_reads(ctx, cases, check_model=True):
    names = list(NAMES)
    items = []
    hitems = []
    stats = {"failed": 0, "succeeded": 0}
    for case in cases:
        real = real_read_case(ctx, case)
        stats["failed" if real["err"] is not None else "succeeded"] += 1
        ctx.count(("read", case["prior"]["cls"], case["format"], case["entry"], case["note"], real["err"] is None, len(items_of(real["target"]))))
        if check_model:
            try:
                term, exp, heap = model_read_case(ctx, case, real, names)
                if real["err"] is not None:
                    case["_exc"] = type(real["err"]).__name__
                items.append((term, exp, case))
                if heap is not None:
                    hitems.append((heap[0], heap[1], case))
            except ValueError as e:
                ctx.notes.append("case not abstracted: %s" % e)
    return items, hitems, names, stats


def alias_probe(ctx):
    """Histories that edit the target's own metadata containers IN PLACE, judged against reference reads taken in a
    pristine interpreter (vlib/c16_alias.py, a fresh subprocess: leaked defaults must not pollute this process, and
    'used target vs brand-new target' cannot see a default that is shared by every instance)."""
    import subprocess
    import sys
    n = 40 if ctx.tier == "quick" else 400
    try:
        p = subprocess.run([sys.executable, "-W", "ignore", "-m", "vlib.c16_alias", str(ctx.rng.randrange(10 ** 6)), str(n)],
                           stdout=subprocess.PIPE, stderr=subprocess.PIPE, text=True, timeout=600, cwd=core.VERIF)
    except subprocess.TimeoutExpired:
        ctx.obligation("finder:in-place-history-probe-completed", False, "timeout")
        return
    diffs, evaluated = [], 0
    for line in p.stdout.splitlines():
        if line.startswith("DIFF "):
            diffs.append(json.loads(line[5:]))
        elif line.startswith("EVALUATED "):
            evaluated = int(line.split()[1])
    ctx.obligation("finder:in-place-history-probe-completed", p.returncode == 0 and evaluated > 0, (p.stderr or "")[-400:])
    ctx.count(("alias-probe",), n=evaluated)
    for d in diffs:
        attr = re.split(r"[.\[]", d["attr"])[0] or d["attr"]
        key = "history-alias:%s:%s" % (attr, d["target"])
        if under_cap(ctx, key):
            ctx.violation(
                "after the history %s, %s().readStr(<%s source>, %r) into %s target gives %s = %r; the same read in a pristine "
                "interpreter gives %r" % ("; ".join(d["history"]), d["class"], d["format"], d["format"],
                                          "the used" if d["target"] == "used" else "a BRAND-NEW", d["attr"], d["after_history"], d["pristine"]),
                {"history": d["history"], "class": d["class"], "format": d["format"], "source": d["source"], "target": d["target"],
                 "attr": d["attr"], "pristine": d["pristine"], "after_history": d["after_history"],
                 "how_to_replay": "python -m vlib.c16_alias <seed> (fresh interpreter)"},
                kind="history", key=key)
    ctx.coverage["in_place_history_reads"] = evaluated


def run(ctx):
    alias_probe(ctx)
    ctx.trusted += ["Coq 8.16.1 kernel + vm_compute (no native_compute)",
                    "translate/c16_rw.py (fail-closed ast translator of the statement order of read/readStr/write)",
                    "the effect semantics of Model/C16_ReadWriteTxn.v (Structure.__init__ without arguments, __dict__.update/pop, self[:] = ..., "
                    "the lattice setter, file open/write) - compared with the implementation on every run (correspondence), not proved",
                    "harness: snapshots (atom identities and data, lattice identity and cell, title, instance dictionary), interning of values"]
    ctx.assumptions += ["statements after the parse call are modelled as total except where the interpreter says otherwise (None result, pdffit not a dictionary)",
                        "a parser returns a Structure instance, None (P_cif without atom sites; handled as an empty Structure()) or raises",
                        "instance attributes other than title / pdffit / _lattice that the user attached (not format metadata) are outside the property: they survive a read",
                        "any exception type counts as a failed read / write",
                        "metadata containers (pdffit dictionary and its nested lists) of distinct objects are distinct objects: not part of the Coq model; "
                        "enforced by the translator (PDFFitStructure.__init__ must build a literal dictionary, no class-level mutable defaults) and probed by vlib/c16_alias.py",
                        "the any-failure theorem assumes that a pdffit entry of a parse result, when present, is a dictionary (pdffit_entry_ok)"]
    quick = ctx.tier == "quick"
    rng = ctx.rng
    from diffpy.structure.parsers import inputFormats
    # ---- the implementation first (no lock needed): finder + abstraction of every case for the model ----
    texts = {}
    for f in inputFormats():
        if f == "auto":
            continue
        texts[f] = [t for t in (written_text(rng, f) for _ in range(4 if quick else 12)) if t]
    n_read = 1000 if quick else 12000
    n_write = 300 if quick else 4000
    cases = [copy.deepcopy(c) for c in FIXED_READ_CASES] + [rand_read_case(rng, i, texts) for i in range(n_read)]
    ctx.log("reads: %d cases" % len(cases))
    items, hitems, names, stats = run_reads(ctx, cases)
    ctx.log("reads done: %s" % stats)
    wcases = [rand_write_case(rng, i) for i in range(n_write)]
    witems = []
    wstats = {"failed": 0, "succeeded": 0}
    for wc in wcases:
        real = real_write_case(ctx, wc)
        wstats["failed" if real["err"] is not None else "succeeded"] += 1
        ctx.count(("write", wc["format"], wc["spoil"], wc["old"] is None, real["err"] is None))
        t, e = model_write_case(wc, real)
        witems.append((t, e, wc))
    ctx.log("writes done: %s" % wstats)
    # ---- translate, prove, and run the model on the same cases (one critical section: Gen/ is shared) ----
    with core.BuildLock():
        ctx.log("build lock acquired")
        ok = ctx.regen("c16_rw", c16_rw.generate)
        if ok:
            ctx.coq(TARGETS, theorems_in={"Props/C16"}, timeout=1200)
        if ok and model_built():
            bad, evaluated = coq_compare(ctx, "read", items, names)
            if evaluated:
                detail = ""
                if bad:
                    c, g, e = bad[0]
                    detail = "%d of %d cases; first: %s format=%r entry=%s: model %s, implementation %s" % (
                        len(bad), len(items), c["note"], c["format"], c["entry"], g, e)
                    ctx.notes.append({"correspondence-mismatch": short(c), "model": g, "implementation": e})
                ctx.obligation("correspondence:read-model-vs-implementation", not bad, detail)
            hbad, hevaluated = coq_compare(ctx, "heap", hitems, names)
            if hevaluated:
                detail = ""
                if hbad:
                    c, g, e = hbad[0]
                    detail = "%d of %d cases; first: %s format=%r entry=%s: heap model %s, implementation %s" % (
                        len(hbad), len(hitems), c["note"], c["format"], c["entry"], g, e)
                    ctx.notes.append({"heap-correspondence-mismatch": short(c), "model": g, "implementation": e})
                ctx.obligation("correspondence:heap-model-vs-read", not hbad and len(hitems) > 0, detail or ("no successful read case" if not hitems else ""))
            wbad, wevaluated = coq_compare(ctx, "write", witems, [])
            if wevaluated:
                detail = ""
                if wbad:
                    c, g, e = wbad[0]
                    detail = "%d of %d cases; first: %r: model %s, implementation %s" % (len(wbad), len(witems), c, g, e)
                ctx.obligation("correspondence:write-model-vs-implementation", not wbad, detail)
        else:
            ctx.obligation("correspondence:read-model-vs-implementation", False, "model not built for the current statement lists")
    for c in cases[:2] + cases[len(FIXED_READ_CASES):len(FIXED_READ_CASES) + 2]:
        ctx.sample({"read": short(c)})
    ctx.sample({"write": wcases[0]})
    ctx.coverage.update({
        "violations_by_key": dict(ctx.__dict__.get("_c16_seen", {})),
        "rule": "read cases: random prior (class, atoms, lattice, title, pdffit, user attribute, optionally pre-loaded from another format) x "
                "source (text written by the library in each of the 7 formats, valid or damaged at a random record: truncate / corrupt / delete / token / empty / garbage) x "
                "format argument (true, auto, another, unknown) x entry point (string, file, missing file); write cases: random structure x spoiler x format x pre-existing file; "
                "distinct = distinct (kind, class, format, entry, source kind, outcome, size) tuples",
        "reads": stats, "writes": wstats, "model_cases_compared": len(items) + len(witems), "heap_model_cases_compared": len(hitems),
    })


def replay(ctx, rep):
    """Re-run exactly the recorded case against the current tree."""
    case = rep.get("case", {}).get("case")
    if rep.get("kind") == "broken-obligation" or case is None:
        return run(ctx)
    if "prior" in case:
        real_read_case(ctx, case)
        ctx.count(("replay-read", case["note"]))
    else:
        real_write_case(ctx, case)
        ctx.count(("replay-write", case["format"]))
    ctx.count(("replay", 1))
    ctx.obligation("replay:case-executed", True)
    ctx.coverage.update({"rule": "replay of one recorded case"})
