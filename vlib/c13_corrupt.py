"""C13/C12 shared helper: valid documents of every input format, the single-fault corruption engine,
and the worker that runs the REAL parsers on a text and classifies the outcome.

Everything here talks to the implementation only (import diffpy.structure); no model knowledge.
"""
import glob
import os
import re
import signal
import sys
import tempfile
import traceback

FORMATS = ["xyz", "rawxyz", "pdffit", "discus", "pdb", "xcfg", "cif"]      # concrete parsers (auto is the 8th input format)

TESTDATA_BY_FORMAT = {
    "xyz": ["bucky.xyz"],
    "rawxyz": ["bucky-raw.xyz", "bucky-plain.xyz", "hexagon-raw.xyz", "hexagon-raw.xy"],
    "pdffit": ["Ni.stru", "CdSe_bulk.stru", "Ni_prim123.stru", "ZnSb_RT_Q28X_VM_20_fxiso.rstr"],
    "discus": ["Ni-discus.stru"],
    "pdb": ["arginine.pdb"],
    "xcfg": ["BubbleRaftShort.xcfg"],
    "cif": ["PbTe.cif", "graphite.cif", "Ni_ref.cif", "TeI.cif", "customsg.cif", "curlybrackets.cif", "TeI-unkocc.cif"],
}

REPLACEMENTS = [("empty", ""), ("word", "abc"), ("zero", "0"), ("negative", "-1"), ("huge", "99999999999999999999"),
                ("hugef", "1e308"), ("nan", "nan"), ("inf", "inf"), ("overflow", "1e999"), ("hugeint", "1" + "0" * 400), ("minus", None)]

DOCUMENTED = ("StructureFormatError", "NotImplementedError")


def repo_root():
    return os.environ.get("VERIF_REPO", "/repo")


# ---------------------------------------------------------------------------------------------
# valid documents
# ---------------------------------------------------------------------------------------------

def _shorten(fmt, text, max_atoms):
    """Cut a long valid document down to its first atoms keeping it valid (xcfg, xyz, rawxyz, pdb)."""
    lines = text.split("\n")
    if fmt == "xcfg":
        out, natoms = [], 0
        for ln in lines:
            w = ln.split()
            isatom = len(w) > 3 and not ln.startswith(("H0(", "A =", "Number", "entry", "auxiliary", "#", "."))
            if isatom:
                if natoms >= max_atoms:
                    continue
                natoms += 1
            out.append(ln)
        out = [("Number of particles = %d" % natoms) if ln.startswith("Number of particles") else ln for ln in out]
        return "\n".join(out)
    if fmt == "xyz":
        body = [ln for ln in lines[2:] if ln.strip()][:max_atoms]
        return "\n".join([str(len(body)), lines[1]] + body) + "\n"
    if fmt == "rawxyz":
        body = [ln for ln in lines if ln.strip()][:max_atoms]
        return "\n".join(body) + "\n"
    if fmt == "pdb":
        out, natoms = [], 0
        for ln in lines:
            if ln.startswith(("ATOM", "HETATM")):
                natoms += 1
            if ln.startswith(("ATOM", "HETATM", "SIGATM", "ANISOU", "SIGUIJ")) and natoms > max_atoms:
                continue
            out.append(ln)
        return "\n".join(out)
    return text


def generated_structures(rng, n):
    """Small non-empty structures with varied cells, ADPs and occupancies (used through the library's own writers)."""
    import numpy
    from diffpy.structure import Atom, Lattice, Structure
    cells = [(1, 1, 1, 90, 90, 90), (3.52, 3.52, 3.52, 90, 90, 90), (4.1, 5.2, 6.3, 90, 90, 90), (3, 3, 5, 90, 90, 120),
             (4.2, 5.1, 6.7, 81, 97, 103), (5.5, 6.5, 7.5, 90, 112.5, 90)]
    elements = ["C", "Ni", "O", "Pb", "Te", "Na", "Cl", "H", "Zn", "Sb"]
    out = []
    for k in range(n):
        cell = cells[k % len(cells)] if k < len(cells) else rng.choice(cells)
        s = Structure(lattice=Lattice(*cell))
        s.title = rng.choice(["", "generated %d" % k, "Ni fcc", "x y  z"])
        nat = 1 + (k % 4) if k < 8 else rng.randint(1, 6)
        mode = k % 3          # 0: isotropic zero, 1: isotropic, 2: anisotropic
        for i in range(nat):
            xyz = [round(rng.random(), rng.choice([2, 4, 6])) for _ in range(3)]
            a = Atom(rng.choice(elements), xyz)
            if rng.random() < 0.3:
                a.occupancy = round(rng.uniform(0.1, 1.0), 3)
            s.append(a)
            b = s[-1]
            if mode == 1:
                b.Uisoequiv = round(rng.uniform(0.001, 0.05), 5)
            elif mode == 2:
                b.anisotropy = True
                u = numpy.array([[0.01, 0.001, 0.002], [0.001, 0.02, -0.001], [0.002, -0.001, 0.03]]) * rng.uniform(0.5, 2)
                b.U = numpy.round(u, 6)
                if i % 2 == 0:
                    # standard deviations: the pdb writer then emits SIGATM / SIGUIJ records, pdffit writes them too
                    b.sigxyz = numpy.array([0.001, 0.002, 0.003])
                    b.sigo = 0.01
                    b.sigU = numpy.round(u / 10.0, 6)
        out.append(s)
    return out


def write_all(stru):
    """{format: text} for the 7 writers (a writer that refuses is skipped and reported as None)."""
    from diffpy.structure.parsers import getParser, outputFormats
    res = {}
    for f in outputFormats():
        try:
            res[f] = getParser(f).tostring(stru)
        except Exception as e:   # the writer's problem, not this property's
            res[f] = None
    return res


def valid_documents(rng, tier, max_atoms=None):
    """[(fmt, name, text)] : test-data files plus documents written by the library's own writers."""
    docs = []
    td = os.path.join(repo_root(), "tests", "testdata")
    if max_atoms is None:
        max_atoms = 12 if tier == "quick" else 25
    for fmt, names in TESTDATA_BY_FORMAT.items():
        for nm in names:
            p = os.path.join(td, nm)
            if not os.path.exists(p):
                continue
            text = open(p, encoding="utf-8", errors="replace").read()
            docs.append((fmt, nm, _shorten(fmt, text, max_atoms)))
    # tiny documents: with 0 or 1 atom a damaged supercell record (`ncell`) can stay consistent with the atom count,
    # so the faults reach the code AFTER the count check
    from diffpy.structure import Structure, Atom, Lattice
    for k, atoms in enumerate(([], [Atom("C", [0.1, 0.2, 0.3])], [Atom("C", [0.1, 0.2, 0.3]), Atom("O", [0.1, 0.7, 0.3])])):
        tiny = Structure(atoms, lattice=Lattice(3.0, 4.0, 5.0, 90, 90, 90), title="tiny %d" % k)
        for fmt, text in write_all(tiny).items():
            if text is not None and fmt in ("pdffit", "discus"):
                docs.append((fmt, "tiny%d.%s" % (k, fmt), text))
                if k == 2:
                    docs.append((fmt, "tiny2_121.%s" % fmt, text.replace("1,1,1,2", "1,2,1,2").replace("1, 1, 1, 2", "1, 2, 1, 2")))
    nstru = 3 if tier == "quick" else 9
    for k, s in enumerate(generated_structures(rng, nstru)):
        for fmt, text in write_all(s).items():
            if text is not None and fmt in FORMATS:
                docs.append((fmt, "written%d.%s" % (k, fmt), text))
    return docs


# ---------------------------------------------------------------------------------------------
# corruptions
# ---------------------------------------------------------------------------------------------

def token_spans(fmt, line):
    rx = r"[^\s,]+" if fmt in ("pdffit", "discus") else r"\S+"
    return [m.span() for m in re.finditer(rx, line)]


def _isnum(tok):
    try:
        float(tok)
        return True
    except ValueError:
        return False


def all_single_faults(fmt, text):
    """Yield (description, corrupted_text) for every single-fault corruption of `text`."""
    lines = text.split("\n")
    trailing = ""
    if lines and lines[-1] == "":
        lines = lines[:-1]
        trailing = "\n"
    n = len(lines)

    def join(ls):
        return "\n".join(ls) + trailing

    for i in range(n + 1):
        yield ("trunc_line:%d" % i, join(lines[:i]))
    for i in range(n):
        yield ("del_line:%d" % i, join(lines[:i] + lines[i + 1:]))
        yield ("dup_line:%d" % i, join(lines[:i + 1] + lines[i:]))
        if i + 1 < n:
            ls = list(lines)
            ls[i], ls[i + 1] = ls[i + 1], ls[i]
            yield ("swap_lines:%d,%d" % (i, i + 1), join(ls))
        k = (i * 7 + 3) % n
        if abs(k - i) > 1:
            ls = list(lines)
            ls[i], ls[k] = ls[k], ls[i]
            yield ("swap_lines:%d,%d" % (i, k), join(ls))
        if i > 0:
            ls = list(lines)
            ln = ls.pop(i)
            ls.insert(0, ln)
            yield ("move_front:%d" % i, join(ls))
    for i in range(n):
        spans = token_spans(fmt, lines[i])
        for j, (b, e) in enumerate(spans):
            tok = lines[i][b:e]
            yield ("trunc_token:%d.%d" % (i, j), join(lines[:i] + [lines[i][:b].rstrip()]))
            if len(tok) > 1:
                yield ("trunc_inside:%d.%d" % (i, j), join(lines[:i] + [lines[i][:b + len(tok) // 2]]))
            for rname, r in REPLACEMENTS:
                if r is None:
                    r = ("-" + tok) if _isnum(tok) and not tok.startswith("-") else tok.lstrip("-") or "-"
                if r == tok:
                    continue
                yield ("repl:%d.%d:%s" % (i, j, rname), join(lines[:i] + [lines[i][:b] + r + lines[i][e:]] + lines[i + 1:]))
                # the same replacement keeping the column layout (matters for fixed-column formats)
                w = e - b
                if len(r) != w and r != "":
                    rr = r[:w].rjust(w)
                    if rr != tok:
                        yield ("replw:%d.%d:%s" % (i, j, rname),
                               join(lines[:i] + [lines[i][:b] + rr + lines[i][e:]] + lines[i + 1:]))
                elif r == "":
                    yield ("replw:%d.%d:%s" % (i, j, rname),
                           join(lines[:i] + [lines[i][:b] + " " * w + lines[i][e:]] + lines[i + 1:]))


VOCAB = {
    "xyz": ["1", "2", "3", "C", "Ni", "#", "0.5", "-1.25"],
    "rawxyz": ["C", "Ni", "#", "0.5", "-1.25", "3"],
    "pdffit": ["title", "format", "pdffit", "scale", "sharp", "spcgr", "shape", "sphere", "stepcut", "cell", "dcell", "ncell",
               "atoms", "NI", "1", "1,", "0", "0,", "90,", "3.52,", "#", "0.5", "4"],
    "discus": ["title", "format", "pdffit", "spcgr", "shape", "sphere,", "stepcut,", "cell", "ncell", "atoms", "molecule",
               "generator", "symmetry", "NI", "1", "1,", "0", "0,", "90,", "3.52,", "#", "0.5", "4"],
    "pdb": ["TITLE", "CRYST1", "SCALE1", "SCALE2", "SCALE3", "ATOM", "HETATM", "SIGATM", "ANISOU", "SIGUIJ", "TER", "END",
            "REMARK", "1", "0.100000", "0.000000", "90.00", "1.000", "C", "N", "ARG", "A", "12.5", "-3.25"],
    "xcfg": ["Number of particles =", "A =", "H0(1,1) =", "H0(2,2) =", "H0(3,3) =", "H0(1,2) =", "H0(4,1) =", "H0(0,0) =",
             ".NO_VELOCITY.", "entry_count =", "auxiliary[0] =", "auxiliary[1] =", "auxiliary[7] =", "1", "3", "4", "0", "1.5",
             "Angstrom", "A", "C", "12.011", "0.25", "Uiso", "U11", "U", "B1", "occupancy", "#"],
    "cif": ["data_x", "loop_", "_atom_site_label", "_atom_site_fract_x", "_atom_site_fract_y", "_atom_site_fract_z",
            "_cell_length_a", "_cell_length_b", "_cell_length_c", "_cell_angle_alpha", "_cell_angle_beta", "_cell_angle_gamma",
            "_symmetry_equiv_pos_as_xyz", "_space_group_symop_operation_xyz", "_symmetry_space_group_name_H-M",
            "_atom_site_aniso_label", "_atom_site_aniso_U_11", "_atom_site_occupancy", "_atom_site_adp_type", "'x,y,z'",
            "'P 1'", "'F m -3 m'", "C1", "C2", "?", ".", "0.5", "1.0(2)", "90", "3.5", "Uani", "Uiso", ";", "#", "save_"],
}


def token_soup(fmt, rng):
    voc = VOCAB[fmt] + ["abc", "nan", "inf", "1e999", "-1", "99999999999", ""]
    nl = rng.randint(1, 9)
    lines = []
    for _ in range(nl):
        k = rng.choice([0, 1, 1, 2, 3, 4, 5, 7])
        sep = " " if fmt != "pdb" or rng.random() < 0.5 else "  "
        lines.append(sep.join(rng.choice(voc) for _ in range(k)))
    return "\n".join(lines) + rng.choice(["", "\n"])


def structured_soup(fmt, rng, doc_lines):
    """Random recombination of the lines of a valid document (records out of order, missing, repeated)."""
    k = rng.randint(1, min(12, max(1, len(doc_lines))))
    return "\n".join(rng.choice(doc_lines) for _ in range(k)) + "\n"



# ---------------------------------------------------------------------------------------------
# micro documents: every text of one or two lines over a small alphabet of record heads
# ---------------------------------------------------------------------------------------------
MICRO_ALPHABET = ["42", "0", "-1", "1.5", "abc", "", "#", "# x", "cell", "cell 1 1 1 90 90 90", "data_", "data_x", "title", "title t",
                  "format pdffit", "atoms", "ncell 1 1 1 1", "Number of particles = 1", "A = 1", "ATOM", "END", "CRYST1", "C 0 0 0",
                  "0 0 0", "loop_", "_a 1", "molecule"]


def micro_documents():
    """[(name, text)]: all documents of one or two lines over MICRO_ALPHABET, with the line-ending variants a file can have
    (no final newline, one, two)."""
    out = []
    for a in MICRO_ALPHABET:
        for tail in ("", "\n", "\n\n"):
            out.append(("1:%s%r" % (a, tail), a + tail))
    for a in MICRO_ALPHABET:
        for b in MICRO_ALPHABET:
            out.append(("2:%s|%s" % (a, b), a + "\n" + b + "\n"))
    return out


# a CIF whose space group is given only by an explicit operation list that matches no tabulated group (as customsg.cif):
# faults in the operation loop (identity deleted / replaced, non-group lists) reach the symmetry code, not just the tokenizer
CUSTOM_SYMOP_CIF = """data_custom
_cell_length_a 2.456
_cell_length_b 2.456
_cell_length_c 6.696
_cell_angle_alpha 90
_cell_angle_beta 90
_cell_angle_gamma 120
loop_
_symmetry_equiv_pos_as_xyz
  'x,y,z'
  '-x,-x+y,1/2+z'
  'x-y,x,1/2+z'
  '-y,-x,z'
  '-y,x-y,z'
  'x-y,-y,1/2+z'
loop_
_atom_site_label
_atom_site_fract_x
_atom_site_fract_y
_atom_site_fract_z
C1   0.00000   0.00000   0.00000
C2   0.33333   0.66667   0.00000
"""

SYMOP_REPLACEMENTS = ["'0,0,0'", "'-x,-y,-z'", "'x+1/2,y,z'", "'x,y'", "'x,x,x'", "'2x,y,z'", "'y,x,z'", "'x,y,z+1/3'", "x,y,z"]


def symop_faults(text=CUSTOM_SYMOP_CIF):
    """Faults aimed at the operation loop: delete each operator, replace each by a non-identity / malformed one, keep only one,
    and the same with an unknown space-group name added."""
    lines = text.split("\n")
    idx = [i for i, ln in enumerate(lines) if ln.strip().startswith("'")]
    out = []
    for i in idx:
        out.append(("symop_del:%d" % i, "\n".join(lines[:i] + lines[i + 1:])))
        for k, r in enumerate(SYMOP_REPLACEMENTS):
            out.append(("symop_repl:%d:%d" % (i, k), "\n".join(lines[:i] + ["  " + r] + lines[i + 1:])))
    for k, r in enumerate(SYMOP_REPLACEMENTS):
        out.append(("symop_only:%d" % k, "\n".join(lines[:idx[0]] + ["  " + r] + lines[idx[-1] + 1:])))
    hm = "_symmetry_space_group_name_H-M 'Q 9 9'"
    out += [(d + ":hm", t.replace("loop_\n_symmetry_equiv", hm + "\nloop_\n_symmetry_equiv", 1)) for d, t in list(out)]
    return out

# ---------------------------------------------------------------------------------------------
# running the real parsers
# ---------------------------------------------------------------------------------------------

class _Timeout(Exception):
    pass


def _alarm(signum, frame):
    raise _Timeout()


def parser_chain(tb):
    """function names of the frames inside diffpy/structure/parsers, outermost first, joined by '>'"""
    return ">".join(fr.name for fr in tb if "/diffpy/structure/parsers/" in fr.filename)


def classify(exc):
    """(kind, site, raised_at): kind is 'StructureFormatError', 'NotImplementedError' or 'escape:<qualified type>'.

    site = innermost frame inside parsers/ as file:function:line:chain; raised_at = innermost frame overall; for a
    StructureFormatError raised by a handler, raised_at also carries the translated exception:
    '<at><-<type>@<innermost>@<innermost parsers frame>@<parser chain>'."""
    from diffpy.structure.structureerrors import StructureFormatError
    t = type(exc)
    tb = traceback.extract_tb(exc.__traceback__)
    inner = tb[-1] if tb else None
    psite = None
    for fr in tb:
        if "/diffpy/structure/parsers/" in fr.filename:
            psite = fr
    site = ""
    if psite is not None:
        site = "%s:%s:%d:%s" % (os.path.basename(psite.filename), psite.name, psite.lineno, parser_chain(tb))
    raised_at = "%s:%s:%d" % (os.path.basename(inner.filename), inner.name, inner.lineno) if inner else ""
    if isinstance(exc, StructureFormatError) and exc.__context__ is not None:
        # the handler re-raised: remember what was translated (kind and where it came from)
        c = exc.__context__
        ctb = traceback.extract_tb(c.__traceback__)
        cq = type(c).__name__ if type(c).__module__ == "builtins" else "%s.%s" % (type(c).__module__, type(c).__name__)
        cat = "%s:%s:%d" % (os.path.basename(ctb[-1].filename), ctb[-1].name, ctb[-1].lineno) if ctb else ""
        cps = ""
        for fr in ctb:
            if "/diffpy/structure/parsers/" in fr.filename:
                cps = "%s:%s:%d" % (os.path.basename(fr.filename), fr.name, fr.lineno)
        raised_at = "%s<-%s@%s@%s@%s" % (raised_at, cq, cat, cps, parser_chain(ctb))
    if t is StructureFormatError:
        return "StructureFormatError", site, raised_at
    if isinstance(exc, StructureFormatError):
        return "StructureFormatError", site, raised_at
    if t is NotImplementedError:
        return "NotImplementedError", site, raised_at
    q = t.__name__ if t.__module__ == "builtins" else "%s.%s" % (t.__module__, t.__name__)
    return "escape:" + q, site, raised_at


def run_parser(fmt, text, entry="parse", timeout=20, **pkw):
    """Run the real parser of `fmt` on `text` through one entry point.

    Returns dict(kind=..., site=..., raised_at=..., natoms=..., none=bool)."""
    import io
    import contextlib
    from diffpy.structure.parsers import getParser
    old = signal.signal(signal.SIGALRM, _alarm)
    signal.setitimer(signal.ITIMER_REAL, timeout)
    tmpname = None
    try:
        p = getParser(fmt, **pkw)
        sink = io.StringIO()
        with contextlib.redirect_stdout(sink):
            if entry == "parse":
                r = p.parse(text)
            elif entry == "parseLines":
                r = p.parseLines(text.rstrip("\r\n").split("\n"))
            elif entry == "parseFile":
                fd, tmpname = tempfile.mkstemp(prefix="c13_", suffix=".txt")
                with os.fdopen(fd, "w", encoding="utf-8", newline="") as f:
                    f.write(text)
                r = p.parseFile(tmpname)
            else:
                raise RuntimeError("unknown entry " + entry)
        out = {"kind": "ok", "site": "", "raised_at": "", "none": r is None, "natoms": (len(r) if r is not None else -1),
               "format": getattr(p, "format", None)}
    except _Timeout:
        out = {"kind": "timeout", "site": "", "raised_at": "", "none": False, "natoms": -1}
    except RecursionError as e:
        out = {"kind": "escape:RecursionError", "site": "", "raised_at": "", "none": False, "natoms": -1}
    except BaseException as e:
        if isinstance(e, (KeyboardInterrupt, SystemExit)) and not isinstance(e, Exception):
            kind = "escape:" + type(e).__name__
            out = {"kind": kind, "site": "", "raised_at": "", "none": False, "natoms": -1}
        else:
            kind, site, raised_at = classify(e)
            out = {"kind": kind, "site": site, "raised_at": raised_at, "none": False, "natoms": -1,
                   "msg": str(e)[:200]}
    finally:
        signal.setitimer(signal.ITIMER_REAL, 0)
        signal.signal(signal.SIGALRM, old)
        if tmpname:
            try:
                os.remove(tmpname)
            except OSError:
                pass
    return out


def worker(task):
    """task = (id, fmt, text, entries) -> (id, {entry: outcome})"""
    tid, fmt, text, entries = task
    res = {}
    for en in entries:
        res[en] = run_parser(fmt, text, en)
    return tid, res


def pool(nproc=None):
    import multiprocessing
    ctx = multiprocessing.get_context("fork")
    return ctx.Pool(nproc or min(16, os.cpu_count() or 4))
