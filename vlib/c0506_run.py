"""C05/C06 shared orchestration: strata of all settings -> sampled exact sites -> real code -> certificates
-> extracted Coq checker; finders on every site.  Used by vlib/props/c05.py and c06.py."""
import multiprocessing
import random
import time
from fractions import Fraction as F

from translate import sgtables, c06_queryguards
from vlib import c0506_strata as st
from vlib import c0506_cert as ce

_G = {}


def load_tables():
    rots, trs, settings = sgtables.load_all()
    allops = [st.setting_ops(rots, trs, g) for g in settings]
    return settings, allops


def _worker(job):
    """One setting: sample points on the chosen strata, observe the implementation, build certificates, run finders."""
    si, chosen, seed, npts, kinds, big = job
    from diffpy.structure.spacegroups import SpaceGroupList
    ops = _G["allops"][si]
    sg = SpaceGroupList[si]
    rng = random.Random(seed * 7919 + si)
    out = []
    for sidx, stratum in chosen:
        for pt in range(npts):
            x = st.sample_point(ops, stratum, rng, big=(big and pt % 2 == 1))
            rec = {"si": si, "stratum": sidx, "stab": list(stratum["stab"]), "dim": len(stratum["fix"]), "x": None,
                   "skipped": None, "pos": None, "u": None, "pos_err": None, "u_err": None, "find_pos": [], "find_u": [],
                   "exc": None}
            out.append(rec)
            if x is None:
                rec["skipped"] = "no generic point with decision margin > 1/500 found"
                continue
            rec["x"] = [str(v) for v in x]
            Uin = [F(rng.randrange(20, 900), 10000) for _ in range(3)] + [F(rng.randrange(-150, 150), 10000) for _ in range(3)]
            rec["Uin"] = [str(v) for v in Uin]
            try:
                obs = ce.observe(sg, x, Uin)
            except Exception as e:      # the implementation itself failed on a valid site
                rec["exc"] = "%s: %s" % (type(e).__name__, e)
                continue
            rec["mult"] = obs["mult"]
            rec["formula0"] = obs["eq"][0]["pf"] if obs["eq"] else None
            stab = list(stratum["stab"])
            if "pos" in kinds:
                parsed = None
                try:
                    rec["pos"], parsed = ce.pos_case(si, ops, stab, obs, rng)
                except ce.CertError as e:
                    rec["pos_err"] = str(e)
                try:
                    rec["find_pos"] = [(k, m, d) for k, m, d in ce.finder_pos(ops, stab, obs, parsed, rng)]
                except ce.CertError as e:
                    rec["find_pos"] = []
                    rec["pos_err"] = rec["pos_err"] or str(e)
                rec["obs_pos"] = {"xyz": [float(v) for v in x], "null_space": obs["N"], "pparameters": obs["ppar"],
                                  "formulas": [e["pf"] for e in obs["eq"]][:6]}
            if "u" in kinds:
                uparsed = None
                try:
                    rec["u"], uparsed = ce.u_case(si, ops, stab, obs, rng)
                except ce.CertError as e:
                    rec["u_err"] = str(e)
                try:
                    rec["find_u"] = [(k, m, d) for k, m, d in ce.finder_u(sg, ops, stab, obs, uparsed, rng)]
                except ce.CertError as e:
                    rec["u_err"] = rec["u_err"] or str(e)
                rec["obs_u"] = {"xyz": [float(v) for v in x], "Uin": obs["Uin"], "Uspace": obs["Usp"], "Uparameters": obs["Upar"],
                                "Uij": obs["Uij"], "Uisotropy": obs["iso"], "UFormula0": obs["eq"][0]["uf"] if obs["eq"] else None}
    return out


def choose_strata(strata, tier, rng, per_setting):
    """Which strata of one setting are visited.  thorough: all.  quick: every special stratum with free
    parameters up to per_setting, the rest drawn from ctx.rng; every setting is touched."""
    idx = list(range(len(strata)))
    if tier == "thorough" or len(idx) <= per_setting:
        return idx
    rng.shuffle(idx)
    # prefer strata with 1 or 2 free directions (where the direction heuristics matter), then the others
    idx.sort(key=lambda i: 0 if 0 < len(strata[i]["fix"]) < 3 else 1)
    return sorted(idx[:per_setting])


def collect(ctx, kinds, per_setting, npts, nproc=16):
    """-> (settings, allops, records)."""
    t0 = time.time()
    settings, allops = load_tables()
    strata = st.all_strata(allops, ctx.seed, nproc)
    ctx.log("strata: %d (setting, stabiliser) pairs in %.1fs" % (sum(len(s) for s in strata), time.time() - t0))
    _G["allops"] = allops
    jobs = []
    for si, ss in enumerate(strata):
        ch = choose_strata(ss, ctx.tier, ctx.rng, per_setting)
        jobs.append((si, [(i, ss[i]) for i in ch], ctx.seed, npts, kinds, True))
    jobs.sort(key=lambda j: -len(allops[j[0]]) * len(j[1]))
    t1 = time.time()
    with multiprocessing.get_context("fork").Pool(nproc) as pool:
        res = pool.map(_worker, jobs, chunksize=1)
    recs = [r for rs in res for r in rs]
    recs.sort(key=lambda r: (r["si"], r["stratum"]))
    ctx.log("implementation observed on %d sites in %.1fs" % (len(recs), time.time() - t1))
    return settings, allops, strata, recs


def _listing_worker(job):
    """One setting: unions of 2-3 exact orbits (<= maxpos positions), shuffled / cell-shifted / noisy -> SymmetryConstraints."""
    si, strata, seed, count, with_u, maxpos = job
    from diffpy.structure.spacegroups import SpaceGroupList
    ops = _G["allops"][si]
    sg = SpaceGroupList[si]
    rng = random.Random(seed * 104729 + si)
    out = []
    for c in range(count):
        picks = []
        total = 0
        cand = list(range(len(strata)))
        rng.shuffle(cand)
        for i in cand:
            m = len(ops) // len(strata[i]["stab"])
            if picks and total + m > maxpos:
                continue
            x = st.sample_point(ops, strata[i], rng)
            if x is None:
                continue
            picks.append((strata[i], x))
            total += m
            # the same stratum once more (two different orbits of one Wyckoff type) when there is room
            if len(strata[i]["fix"]) > 0 and total + m <= maxpos and rng.random() < 0.5:
                x2 = st.sample_point(ops, strata[i], rng)
                if x2 is not None:
                    picks.append((strata[i], x2))
                    total += m
            if len(picks) >= 3:
                break
        rec = {"si": si, "npos": total, "norbits": len(picks), "sites": [[str(v) for v in x] for _, x in picks], "hits": [], "exc": None}
        try:
            rec["hits"] = [(k, m, d) for k, m, d in ce.finder_listing(sg, ops, picks, rng, with_u=with_u)]
        except ce.CertError as e:
            rec["hits"] = [("formulas", str(e), {})]
        except Exception as e:
            rec["exc"] = "%s: %s" % (type(e).__name__, e)
        out.append(rec)
    return out


def _usage_worker(job):
    """One setting: shared-array, non-default-eps and read-only-query patterns on the real classes."""
    si, strata, seed, count, pid = job
    from diffpy.structure.spacegroups import SpaceGroupList
    ops = _G["allops"][si]
    sg = SpaceGroupList[si]
    rng = random.Random(seed * 15485863 + si)
    out = []
    for c in range(count):
        case = ce.make_usage_case(ops, strata, rng)
        if case is None:
            continue
        case["long"] = ce.make_long_case(ops, strata, rng)
        rec = {"si": si, "usage": case, "hits": [], "exc": None, "queries": [], "translations": []}
        try:
            rec["hits"] = [(k, m, d) for k, m, d in ce.finder_usage(sg, ops, case, pid, qlog=rec["queries"])]
            if case["long"] is not None:
                rec["hits"] += [(k, m, d) for k, m, d in ce.finder_long_listing(sg, ops, case["long"], pid, tlog=rec["translations"])]
        except ce.CertError as e:
            rec["hits"] = [("formulas", str(e), {"usage": case})]
        except Exception as e:
            import traceback
            rec["exc"] = "%s: %s | %s" % (type(e).__name__, e, traceback.format_exc()[-300:])
        out.append(rec)
    return out


def usages(ctx, allops, strata, count, pid, nproc=16):
    _G["allops"] = allops
    jobs = [(si, strata[si], ctx.seed, count, pid) for si in range(len(allops))]
    jobs.sort(key=lambda j: -len(allops[j[0]]))
    t1 = time.time()
    with multiprocessing.get_context("fork").Pool(nproc) as pool:
        res = pool.map(_usage_worker, jobs, chunksize=1)
    recs = [r for rs in res for r in rs]
    ctx.log("usage patterns (shared arrays, eps=1e-3 / 1e-7, query histories, custom symbols on long listings) on %d cases in %.1fs" % (len(recs), time.time() - t1))
    return recs


def listings(ctx, allops, strata, count, with_u, maxpos=100, nproc=16):
    _G["allops"] = allops
    jobs = [(si, strata[si], ctx.seed, count, with_u, maxpos) for si in range(len(allops))]
    jobs.sort(key=lambda j: -len(allops[j[0]]))
    t1 = time.time()
    with multiprocessing.get_context("fork").Pool(nproc) as pool:
        res = pool.map(_listing_worker, jobs, chunksize=1)
    recs = [r for rs in res for r in rs]
    ctx.log("SymmetryConstraints run on %d listings (%d positions) in %.1fs" % (len(recs), sum(r["npos"] for r in recs), time.time() - t1))
    return recs


# ---------------------------------------------------------------- the two checks
import collections
import os

from vlib import core, sglive

TRUSTED = [
    "Coq 8.16.1 kernel (theorems closed under the global context: no axioms)",
    "translate/sgtables.py (fail-closed ast translator of the space-group tables; validated against the live objects each run)",
    "translate/c06_queryguards.py (fail-closed: pins the ast of positionDifference/nearestSiteIndex/equalPositions to the modelled shape, "
    "reads the tolerance argument of the guards of positionFormula/UFormula and the eps handed to GeneratorSite by its two callers)",
    "OCaml extraction with ExtrOcamlBasic only (bool, option, list, prod, unit, sumbool mapped; Z, positive, nat, Q extracted inductives) "
    "and ocaml/C0506/driver.ml (reads integers, prints integers; decoding of a certificate is done by the extracted Coq function c0506_run)",
    "vlib/c0506_cert.py: formula reader (cross-checked on every formula against Python's own parser), conversion of the reported doubles to "
    "exact rationals, rationalisation of null_space/Uspace entries (1e-9), tolerances TOL_POS=1e-5 (constants are printed with 6 digits), "
    "1e-9 relative for tensors",
    "vlib/c0506_strata.py: exact stratum enumeration (candidates: fixed sets of single operations with shifts in {-1,0,1}^3, the grid (Z/24)^3); "
    "a stratum it misses is not visited",
    "span witnesses (P, C) are computed outside Coq by exact elimination and only CHECKED by the Coq function",
    "numpy/LAPACK (svd, lexsort, around) and IEEE arithmetic inside the implementation are exercised, not modelled",
]


def build_checker(ctx):
    rc, out = core.sh("timeout 1500 bash %s" % os.path.join(core.VERIF, "ocaml", "C0506", "build.sh"), timeout=1530)
    ok = rc == 0 and os.path.exists(ce.CHECKER)
    ctx.obligation("build:ocaml/C0506 (extraction of c0506_run)", ok, out[-600:] if not ok else "")
    ctx.checker_cmds.append("bash ocaml/C0506/build.sh && ocaml/C0506/c0506_checker < certificates")
    return ok


def tables_match_live(ctx, settings, allops):
    """The operations the Coq tables hold are the ones the live SpaceGroup objects apply (translator validation)."""
    from diffpy.structure.spacegroups import SpaceGroupList
    ok, detail = len(settings) == len(SpaceGroupList), ""
    if not ok:
        detail = "translator sees %d settings, live list has %d" % (len(settings), len(SpaceGroupList))
    else:
        for si, (ops, sg) in enumerate(zip(allops, SpaceGroupList)):
            live = [sglive.exact_op(o) for o in sg.symop_list]
            mine = [(R, tuple(4 * t for t in T)) for R, T in ops]
            if live != mine:
                ok, detail = False, "setting %d (%s): operations differ from the live object" % (si, sg.short_name)
                break
    ctx.obligation("correspondence:tables-vs-live-objects", ok, detail)
    return ok


def _site_case(settings, r, extra=None):
    g = settings[r["si"]]
    case = {"setting_index": r["si"], "short_name": g["short_name"], "number": g["number"], "xyz": r.get("x"),
            "xyz_float": [float(F(v)) for v in r["x"]] if r.get("x") else None, "Uin": r.get("Uin"),
            "stabiliser_ops": r["stab"], "free_dimensions": r["dim"]}
    if extra:
        case.update(extra)
    return case


def run_property(ctx, pid):
    kind = "pos" if pid == "C05" else "u"
    clauses = ce.POS_CLAUSES if pid == "C05" else ce.U_CLAUSES
    ctx.trusted += TRUSTED
    ctx.assumptions += [
        "sites are sampled: every discovered (setting, site-symmetry group) pair is visited at generic exact points "
        "(decision margin > 1/500); 'for all coordinates on the stratum' is not proved, the float heuristics are not modelled",
        "the universal quantifier over parameter values / input tensors is carried by the soundness theorems of the checker, "
        "applied to each reported certificate",
    ]
    thorough = ctx.tier == "thorough"
    built = False
    with core.BuildLock():
        if ctx.regen("sgtables", sgtables.generate) and ctx.regen("c06_queryguards", c06_queryguards.generate):
            ok, _ = ctx.coq(["Props/%s.vo" % pid, "Model/C05_Run.vo"], theorems_in={"Props/%s" % pid})
            if ok:
                built = build_checker(ctx)
    settings, allops, strata, recs = collect(ctx, (kind,), per_setting=10 ** 6, npts=(12 if thorough else 2))
    recs = corpus_sites(ctx, pid, settings, allops, kind) + recs
    tables_match_live(ctx, settings, allops)
    touched = len(set(r["si"] for r in recs))
    ctx.obligation("coverage:all-settings-touched", touched == len(settings), "%d of %d settings" % (touched, len(settings)))

    # ---- correspondence: certificates through the verified checker
    lines = [r[kind] for r in recs if r[kind]]
    fails = collections.Counter()
    bad_sites = []
    if built:
        t0 = time.time()
        res = run_checker_logged(ctx, lines)
        i = 0
        for r in recs:
            if r[kind]:
                r["failed"] = res[i]
                i += 1
                ctx.count((r["si"], r["stratum"]))
                if r["failed"]:
                    for cl in r["failed"]:
                        fails[cl] += 1
                    bad_sites.append(r)
        ctx.log("checker: %d certificates, %d rejected, %.1fs" % (len(lines), len(bad_sites), time.time() - t0))
    errs = [r for r in recs if r[kind + "_err"]]
    detail = ""
    if bad_sites or errs:
        parts = []
        for r in bad_sites[:4]:
            parts.append("%s %s: %s" % (settings[r["si"]]["short_name"], [float(F(v)) for v in r["x"]],
                                        "; ".join(clauses.get(c, str(c)) for c in r["failed"])))
        for r in errs[:3]:
            parts.append("%s %s: %s" % (settings[r["si"]]["short_name"], [float(F(v)) for v in r["x"]], r[kind + "_err"]))
        detail = "%d certificates rejected, %d not formable; e.g. " % (len(bad_sites), len(errs)) + " | ".join(parts)
    oname = "correspondence:%s-certificates-accepted" % ("position" if pid == "C05" else "tensor")
    ctx.obligation(oname, built and not bad_sites and not errs, detail or ("" if built else "checker not built"))
    if built and (bad_sites or errs) and all(r["find_" + kind] or r["exc"] for r in bad_sites + errs):
        # every rejected certificate comes with a concrete failing input found on the real code (reported below,
        # possibly as a known finding): the broken correspondence is explained by those
        ctx.explained = dict(getattr(ctx, "explained", {}), **{oname: True})

    # ---- finders: the property on the real code, every visited site
    nviol = collections.Counter()
    reported = set()
    for r in recs:
        if r["exc"]:
            nviol["exception"] += 1
            key = "%s:exception:%s" % (pid, settings[r["si"]]["short_name"])
            if len(reported) < 6 and key not in reported:
                reported.add(key)
                ctx.violation("GeneratorSite raised %s for %s at %s" % (r["exc"], settings[r["si"]]["short_name"], r["x"]),
                              _site_case(settings, r, {"finder": "exception"}), key=key)
        for k, msg, data in r["find_" + kind]:
            nviol[k] += 1
            key = "%s:%s:%s:stab%d" % (pid, k, settings[r["si"]]["short_name"], len(r["stab"]))
            if key in reported or len(reported) >= 6:
                continue
            reported.add(key)
            obs = r.get("obs_" + kind, {})
            ctx.violation("%s (%s) site %s: %s" % (settings[r["si"]]["short_name"], settings[r["si"]]["number"],
                                                   [float(F(v)) for v in r["x"]], msg),
                          _site_case(settings, r, {"finder": k, "observed": obs, "detail": data}), key=key)
    skipped = sum(1 for r in recs if r["skipped"])

    # ---- whole lists
    lrecs = listings(ctx, allops, strata, count=(12 if thorough else 2), with_u=(pid == "C06"))
    lbad = collections.Counter()
    for r in lrecs:
        ctx.count(("listing", r["si"], tuple(map(tuple, r["sites"]))))
        if r["exc"]:
            lbad["exception"] += 1
            key = "%s:listing-exception:%s" % (pid, settings[r["si"]]["short_name"])
            if key not in reported and len(reported) < 8:
                reported.add(key)
                ctx.violation("SymmetryConstraints raised %s for %s" % (r["exc"], settings[r["si"]]["short_name"]),
                              {"setting_index": r["si"], "short_name": settings[r["si"]]["short_name"], "sites": r["sites"],
                               "finder": "listing"}, key=key)
        for k, msg, data in r["hits"]:
            lbad[k] += 1
            key = "%s:listing-%s:%s" % (pid, k, settings[r["si"]]["short_name"])
            if key in reported or len(reported) >= 8:
                continue
            reported.add(key)
            ctx.violation("%s listing of %d positions (%d orbits): %s" % (settings[r["si"]]["short_name"], r["npos"], r["norbits"], msg),
                          {"setting_index": r["si"], "short_name": settings[r["si"]]["short_name"], "sites": r["sites"],
                           "finder": "listing", "detail": data}, key=key)
    ctx.obligation("correspondence:%s" % ("coremap-vs-exact-orbit-partition" if pid == "C05" else "whole-structure-tensors"),
                   not lbad, "; ".join("%s x%d" % kv for kv in lbad.items()))

    # ---- usage patterns
    urecs = usages(ctx, allops, strata, count=(4 if thorough else 1), pid=pid)
    ubad = collections.Counter()
    for r in urecs:
        ctx.count(("usage", r["si"], tuple(map(tuple, r["usage"]["sites"]))))
        hits = list(r["hits"])
        if r["exc"]:
            hits.append(("exception", "raised %s" % r["exc"], {"usage": r["usage"]}))
        for k, msg, data in hits:
            ubad[k] += 1
            key = "%s:usage-%s:%s" % (pid, k, settings[r["si"]]["short_name"])
            if key in reported or ubad[k] > 3:
                continue
            reported.add(key)
            ctx.violation("%s: %s" % (settings[r["si"]]["short_name"], msg),
                          {"setting_index": r["si"], "short_name": settings[r["si"]]["short_name"], "finder": "usage",
                           "usage": r["usage"], "kind": k}, key=key)
    # the query model (Model/C06_Query.v with the guards of the current source) against the real answers
    qrecs = [q for r in urecs for q in r.get("queries", [])]
    if built and qrecs:
        qres = ce.run_checker([q["line"] for q in qrecs], nproc=core.NPROC)
        qbad = [(q, a) for q, a in zip(qrecs, qres) if a != [q["real"]]]
        ctx.count(n=len(qrecs))
        ctx.obligation("correspondence:query-model-vs-%s" % ("positionFormula" if pid == "C05" else "UFormula"), not qbad,
                       "%d of %d queries differ, e.g. %s: model %s, implementation %s" % (
                           len(qbad), len(qrecs), qbad[0][0]["what"], qbad[0][1], qbad[0][0]["real"]) if qbad else "")
        ctx.coverage["query_cases"] = len(qrecs)
        ctx.coverage["query_answers"] = dict(collections.Counter("answered" if q["real"] >= 0 else "empty" for q in qrecs))
    # the scanner model of the custom-symbol translation (Model/C05_SymTrans.v) against the real translated formulas
    trecs = [t for r in urecs for t in r.get("translations", [])]
    if built and trecs:
        tres = ce.run_checker([t["line"] for t in trecs], nproc=core.NPROC)
        tbad = [(t, a) for t, a in zip(trecs, tres) if a != t["real"]]
        nwf = [t for t in trecs if not t["wf"]]
        ctx.count(n=len(trecs))
        ctx.obligation("correspondence:symbol-translation-model-vs-%s" % ("positionFormulas(xyzsymbols)" if pid == "C05" else "UFormulas(Usymbols)"),
                       not tbad, "%d of %d translations differ, e.g. %r: model %r, implementation %r" % (
                           len(tbad), len(trecs), tbad[0][0]["formula"], "".join(chr(c) for c in tbad[0][1] if 0 <= c < 256),
                           "".join(chr(c) for c in tbad[0][0]["real"])) if tbad else "")
        ctx.obligation("correspondence:formulas-meet-the-hypothesis-of-the-translation-theorem", not nwf,
                       "%d formulas are not text-without-start-letters + parameter symbols, e.g. %r" % (len(nwf), nwf[0]["formula"]) if nwf else "")
        ctx.coverage["translation_cases"] = len(trecs)
    ctx.obligation("correspondence:usage-patterns (shared arrays = fresh copies; eps 1e-3 / 1e-7; query histories = fresh object; custom symbols on long listings)",
                   not ubad, "; ".join("%s x%d" % kv for kv in ubad.items()))

    good = [r for r in recs if r[kind] and not r.get("failed")]
    for r in good[:: max(1, len(good) // 5)][:5]:
        ctx.sample({"setting": settings[r["si"]]["short_name"], "xyz": [float(F(v)) for v in r["x"]], "stabiliser_size": len(r["stab"]),
                    "free_dimensions": r["dim"], "multiplicity": r.get("mult"), "observed": r.get("obs_" + kind)})
    ctx.coverage.update({
        "rule": "every discovered (setting, exact site-symmetry group) pair x %d generic exact point(s); one key per pair; "
                "plus %d listing(s) per setting through SymmetryConstraints%s" % (12 if thorough else 2, 12 if thorough else 2,
                                                                                 "/ExpandAsymmetricUnit" if pid == "C06" else ""),
        "settings_touched": touched, "strata_pairs": sum(len(s) for s in strata), "sites": len(recs), "sites_skipped_margin": skipped,
        "certificates_checked": len(lines), "certificates_rejected": len(bad_sites), "certificates_not_formable": len(errs),
        "rejected_by_clause": {clauses.get(k, str(k)): v for k, v in fails.items()},
        "finder_hits": dict(nviol), "listing_hits": dict(lbad), "listings": len(lrecs),
        "usage_cases": len(urecs), "usage_hits": dict(ubad),
        "listing_positions": sum(r["npos"] for r in lrecs),
        "distribution_free_dimensions": dict(collections.Counter(r["dim"] for r in recs)),
        "distribution_stabiliser_size": dict(collections.Counter(len(r["stab"]) for r in recs)),
        "distribution_multiplicity": dict(collections.Counter(r.get("mult") for r in recs)),
        "exhaustive": False,
    })


def corpus_sites(ctx, pid, settings, allops, kind):
    """corpus/<pid>/*.json: past disagreements, visited first (same treatment as the generated sites)."""
    import json
    from diffpy.structure.spacegroups import SpaceGroupList
    d = os.path.join(core.VERIF, "corpus", pid)
    out = []
    if not os.path.isdir(d):
        return out
    rng = random.Random(ctx.seed)
    for fn in sorted(os.listdir(d)):
        if not fn.endswith(".json"):
            continue
        c = json.load(open(os.path.join(d, fn)))
        si = next((i for i, g in enumerate(settings) if g["short_name"] == c["short_name"]), None)
        if si is None:
            continue
        ops, sg = allops[si], SpaceGroupList[si]
        x = [F(v) for v in c["xyz"]]
        Uin = [F(v) for v in c["Uin"]]
        stab = st.stabiliser(ops, x)
        rows = [[ops[i][0][3 * a + b] - int(a == b) for b in range(3)] for i in stab for a in range(3)]
        rec = {"si": si, "stratum": -1 - len(out), "stab": stab, "dim": len(st.nullspace(rows, 3)), "x": [str(v) for v in x],
               "Uin": [str(v) for v in Uin], "skipped": None, "pos": None, "u": None, "pos_err": None, "u_err": None,
               "find_pos": [], "find_u": [], "exc": None}
        out.append(rec)
        try:
            obs = ce.observe(sg, x, Uin)
        except Exception as e:
            rec["exc"] = "%s: %s" % (type(e).__name__, e)
            continue
        rec["mult"] = obs["mult"]
        parsed = None
        try:
            rec[kind], parsed = (ce.pos_case if kind == "pos" else ce.u_case)(si, ops, stab, obs, rng)
        except ce.CertError as e:
            rec[kind + "_err"] = str(e)
        try:
            if kind == "pos":
                rec["find_pos"] = list(ce.finder_pos(ops, stab, obs, parsed, rng))
                rec["obs_pos"] = {"xyz": [float(v) for v in x], "null_space": obs["N"], "pparameters": obs["ppar"],
                                  "formulas": [e["pf"] for e in obs["eq"]][:6]}
            else:
                rec["find_u"] = list(ce.finder_u(sg, ops, stab, obs, parsed, rng))
                rec["obs_u"] = {"xyz": [float(v) for v in x], "Uin": obs["Uin"], "Uspace": obs["Usp"], "Uparameters": obs["Upar"],
                                "Uij": obs["Uij"], "Uisotropy": obs["iso"]}
        except ce.CertError as e:
            rec[kind + "_err"] = rec[kind + "_err"] or str(e)
    return out


def run_checker_logged(ctx, lines):
    return ce.run_checker(lines, nproc=core.NPROC)


def replay_property(ctx, pid, case):
    """Re-run the finder on the site (or listing) stored in a replay file."""
    kind = "pos" if pid == "C05" else "u"
    c = case.get("case", case)
    settings, allops = load_tables()
    si = c["setting_index"]
    from diffpy.structure.spacegroups import SpaceGroupList
    ops, sg = allops[si], SpaceGroupList[si]
    rng = random.Random(ctx.seed)
    if c.get("finder") == "usage":
        hits = list(ce.finder_usage(sg, ops, c["usage"], pid))
        if c["usage"].get("long"):
            hits += list(ce.finder_long_listing(sg, ops, c["usage"]["long"], pid))
        stab = []
    elif c.get("finder") == "listing":
        picks = []
        for xs in c["sites"]:
            x = [F(v) for v in xs]
            stab = st.stabiliser(ops, x)
            rows = [[ops[i][0][3 * a + b] - int(a == b) for b in range(3)] for i in stab for a in range(3)]
            picks.append(({"stab": tuple(stab), "w": x, "fix": st.nullspace(rows, 3)}, x))
        hits = list(ce.finder_listing(sg, ops, picks, rng, with_u=(pid == "C06")))
    else:
        x = [F(v) for v in c["xyz"]]
        Uin = [F(v) for v in c["Uin"]]
        stab = st.stabiliser(ops, x)
        obs = ce.observe(sg, x, Uin)
        if kind == "pos":
            try:
                _, parsed = ce.pos_case(si, ops, stab, obs, rng)
            except ce.CertError:
                parsed = None
            hits = list(ce.finder_pos(ops, stab, obs, parsed, rng, nparam=6))
        else:
            try:
                _, parsed = ce.u_case(si, ops, stab, obs, rng)
            except ce.CertError:
                parsed = None
            hits = list(ce.finder_u(sg, ops, stab, obs, parsed, rng))
    ctx.count(("replay", si))
    for k, msg, data in hits:
        key = "%s:usage-%s:%s" % (pid, k, c.get("short_name")) if c.get("finder") == "usage" else \
            "%s:listing-%s:%s" % (pid, k, c.get("short_name")) if c.get("finder") == "listing" else \
            "%s:%s:%s:stab%d" % (pid, k, c.get("short_name"), len(stab))
        ctx.violation("replay %s: %s" % (c.get("short_name"), msg), dict(c, detail=data), key=key)
    ctx.obligation("replay:finder-ran", True, "%d hit(s)" % len(hits))
