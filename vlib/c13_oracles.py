"""C13: runs the extracted Coq models (ocaml/C13/c13_driver) with every oracle answered by the LIVE Python primitive.

The driver owns the control flow (the Coq model); this module only evaluates primitives on demand:
str.split / strip, float(), int(), Lattice(...), setLatPar, setLatBase, numpy assignments, the xcfg regex,
_assign_auxiliaries for one property name, ...  Values (floats) live here and are referred to by integer handles.
"""
import os
import re
import subprocess
import warnings

from vlib import core

DRIVER = os.path.join(core.VERIF, "ocaml", "C13", "c13_driver")

KIND_NAMES = ["ValueError", "IndexError", "KeyError", "TypeError", "StopIteration", "ZeroDivisionError", "OverflowError",
              "UnboundLocalError", "NameError", "AttributeError", "SyntaxError", "AssertionError", "RecursionError",
              "MemoryError", "UnicodeError", "LinAlgError", "LatticeError", "SymmetryError", "StarError", "YappsSyntaxError"]


def kind_of_exception(e):
    """Name of the model kind of a live exception object (most specific class first)."""
    from diffpy.structure.structureerrors import StructureFormatError
    if isinstance(e, StructureFormatError):
        return "FormatError"
    for c in type(e).__mro__:
        if c.__name__ == "NotImplementedError":
            return "NotImplemented"
        if c.__name__ in KIND_NAMES:
            return c.__name__
    return "Exception"


def kind_of_outcome(kind):
    """Map vlib.c13_corrupt.run_parser()['kind'] to a model kind name ('ok' stays)."""
    if kind == "StructureFormatError":
        return "FormatError"
    if kind == "NotImplementedError":
        return "NotImplemented"
    if kind.startswith("escape:"):
        n = kind.split(":", 1)[1].split(".")[-1]
        return n
    return kind


def _hex(s):
    b = s.encode("utf-8", "surrogatepass")
    return b.hex() if b else "-"


def _unhex(h):
    return "" if h == "-" else bytes.fromhex(h).decode("utf-8", "surrogatepass")


class OracleProtocolError(Exception):
    pass


AUX_RE = re.compile(r"^auxiliary\[(\d+)\] =")


class ModelRunner:
    def __init__(self):
        self.p = subprocess.Popen([DRIVER], stdin=subprocess.PIPE, stdout=subprocess.PIPE, text=True, bufsize=1)
        self.vals = []
        self.queries = 0

    def close(self):
        try:
            self.p.stdin.close()
            self.p.wait(timeout=5)
        except Exception:
            self.p.kill()

    # ---- value handles ---------------------------------------------------------------------
    def h(self, v):
        self.vals.append(v)
        return len(self.vals) - 1

    def hl(self, s):
        return [] if s == "-" else [self.vals[int(x)] for x in s.split(",")]

    def hll(self, s):
        return [] if s == "=" else [self.hl(x) for x in s.split(";")]

    def hopt(self, s):
        return [None if x == "N" else self.vals[int(x)] for x in s.split(",")]

    def lattice_from(self, spec):
        """A Structure whose lattice is in the state described by the model's lat_state."""
        import numpy
        from diffpy.structure import Structure
        st = Structure()
        if spec == "D":
            return st
        tag, body = spec.split(":", 1)
        if tag == "P":
            st.lattice.setLatPar(*self.hl(body))
        else:
            sc = self.sc_matrix(body)
            st.lattice.setLatBase(numpy.transpose(numpy.linalg.inv(sc)))
        return st

    def sc_matrix(self, body):
        import numpy
        sc = numpy.zeros((3, 3), dtype=float)
        for i, row in enumerate(body.split("/")):
            if row != "N":
                sc[i, :] = self.hl(row)
        return sc

    # ---- one oracle query ----------------------------------------------------------------------
    def answer(self, w):
        import numpy
        from diffpy.structure import Lattice, Structure
        op = w[0]
        if op == "split":
            return "ok " + " ".join(_hex(t) for t in _unhex(w[1]).split())
        if op == "split_commas":
            return "ok " + " ".join(_hex(t) for t in _unhex(w[1]).replace(",", " ").split())
        if op == "strip":
            return "ok " + _hex(_unhex(w[1]).strip())
        if op == "isblank":
            return "ok %d" % (_unhex(w[1]).strip() == "")
        if op == "float":
            return "ok %d" % self.h(float(_unhex(w[1])))
        if op == "int":
            return "ok %d" % int(_unhex(w[1]))
        if op == "canon_int":
            s = _unhex(w[1])
            return "ok %d" % (str(int(s)) == s)
        if op == "lattice":
            Lattice(*self.hl(w[1]))
            return "ok"
        if op == "mulz":
            return "ok %d" % self.h(self.vals[int(w[1])] * int(w[2], 0))
        if op == "set_lat_par_hist":
            L = Structure().lattice
            for hrow in self.hll(w[1]):
                L.setLatPar(*hrow)
            L.setLatPar(*self.hl(w[2]))
            return "ok"
        if op == "cell_pars":
            L = Structure().lattice
            for hrow in self.hll(w[1]):
                L.setLatPar(*hrow)
            return "ok " + " ".join(str(self.h(x)) for x in L.abcABG())
        if op == "first_word_from":
            ws = _unhex(w[2]).__getitem__(slice(int(w[1]), None)).split(None, 1)
            return "ok " + (_hex(ws[0]) if ws else "")
        if op == "aux_match":
            s = _unhex(w[1])
            m = AUX_RE.match(s)
            return "ok" if not m else "ok %s %d" % (_hex(m.group(1)), m.end())
        if op == "lat_base":
            H0 = numpy.zeros((3, 3), dtype=float)
            for k, v in enumerate(self.hopt(w[1])):
                if v is not None:
                    H0[k // 3, k % 3] = v
            Structure().lattice.setLatBase(H0)
            return "ok"
        if op == "aux_assign":
            from diffpy.structure.parsers.p_xcfg import _assign_auxiliaries
            st = Structure()
            st.addNewAtom("C", xyz=[0.1, 0.2, 0.3])
            _assign_auxiliaries(st[-1], [0.1, 0.2, 0.3, 0.25], auxiliaries={0: _unhex(w[1])}, no_velocity=True)
            return "ok"
        if op == "set_lat_par":
            Structure().lattice.setLatPar(*self.hl(w[1]))
            return "ok"
        if op == "scale3":
            st = self.lattice_from(w[1])
            sc = self.sc_matrix(w[2])
            scaleU = numpy.array([0.0 if v is None else v for v in self.hopt(w[3])])
            base = numpy.transpose(numpy.linalg.inv(sc))
            cryst = numpy.array(st.lattice.abcABG())
            st.lattice.setLatBase(base)
            scale = numpy.array(st.lattice.abcABG())
            reldiff = numpy.fabs(1.0 - scale / cryst)
            return "ok %d %d" % (bool(numpy.all(reldiff < 1.0e-4)), bool(numpy.any(scaleU != 0.0)))
        if op == "set_xyz_cartn":
            st = self.lattice_from(w[1])
            st.addNewAtom("C")
            st.getLastAtom().xyz_cartn = self.hl(w[2])
            return "ok"
        if op == "dot_scale":
            st = self.lattice_from(w[1])
            scale = numpy.identity(3, dtype=float) if w[1] == "D" else numpy.transpose(st.lattice.recbase)
            numpy.dot(scale, self.hl(w[2]))
            return "ok"
        raise OracleProtocolError("unknown oracle " + op)

    def run(self, fmt, lines):
        """-> ('ok', natoms) | ('raise', Kind) | ('protocol', message)"""
        self.vals = []
        out = ["CASE %s %d" % (fmt, len(lines))] + [_hex(l) for l in lines]
        self.p.stdin.write("\n".join(out) + "\n")
        self.p.stdin.flush()
        while True:
            line = self.p.stdout.readline()
            if not line:
                return ("protocol", "driver died")
            w = line.split()
            if not w:
                continue
            if w[0] == "RESULT":
                if w[1] == "ok":
                    return ("ok", int(w[2]))
                if w[1] == "raise":
                    return ("raise", w[2])
                return ("protocol", " ".join(w[2:]))
            self.queries += 1
            try:
                with warnings.catch_warnings():
                    warnings.simplefilter("ignore")
                    rep = self.answer(w[1:])
            except OracleProtocolError:
                raise
            except Exception as e:
                rep = "raise " + kind_of_exception(e)
            self.p.stdin.write(rep + "\n")
            self.p.stdin.flush()


def model_safe(fmt, text):
    """Inputs the byte-level parts of the models (columns, line[3]) and their unary naturals can follow."""
    if fmt in ("xcfg", "pdb") and not text.isascii():
        return False
    if fmt == "xcfg":
        for m in re.finditer(r"auxiliary\[(\d+)\]", text):
            if len(m.group(1)) > 3:
                return False
    if any(ord(c) >= 0xD800 and ord(c) <= 0xDFFF for c in text):
        return False
    return True
