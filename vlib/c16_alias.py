"""C16 aliasing probe, run in a FRESH interpreter (python -m vlib.c16_alias <seed> <n_random>).

"Does not depend on the object's past" includes pasts that edit the target's own metadata containers IN PLACE
(stru.pdffit['ncell'][:] = ..., stru.pdffit['dcell'][0] = ...).  If defaults are shared between instances (class-level
mutable default, shallow copy of nested containers) such an edit leaks into every later read - into the used target AND
into a brand-new one, so comparing "used vs brand-new" afterwards cannot see it.  Therefore:
  phase 0  reference snapshots of cls().readStr(source, format) are taken while the interpreter is pristine;
  phase 1  histories edit reachable mutable containers of existing objects in place;
  phase 2  the same sources are read into the used targets and into brand-new targets, and compared with phase 0.
One JSON line per difference on stdout; the parent (vlib/props/c16.py) turns them into violations with the history.
"""
import copy
import json
import random
import sys

import numpy

CIF = """data_ni
_cell_length_a 3.52
_cell_length_b 3.52
_cell_length_c 3.52
_cell_angle_alpha 90
_cell_angle_beta 90
_cell_angle_gamma 90
_symmetry_space_group_name_H-M 'P 1'
loop_
_atom_site_label
_atom_site_fract_x
_atom_site_fract_y
_atom_site_fract_z
Ni1 0.0 0.0 0.0
Ni2 0.5 0.5 0.0
"""
DISCUS_NO_NCELL = """title   simple cubic
spcgr   P1
cell    4.0, 4.0, 4.0, 90.0, 90.0, 90.0
atoms
C     0.25  0.50  0.75  0.1
O     0.50  0.50  0.50  0.2
"""
XYZ = "2\nxyz title\nC 0.0 0.0 0.0\nO 1.0 0.5 0.25\n"
RAWXYZ = "C 0 0 0\nC 1 1 1\n"


def snapshot(s):
    def plain(v):
        if isinstance(v, numpy.ndarray):
            return [plain(x) for x in v.tolist()]
        if isinstance(v, dict):
            return {str(k): plain(x) for k, x in sorted(v.items(), key=lambda kv: str(kv[0]))}
        if isinstance(v, (list, tuple)):
            return [plain(x) for x in v]
        if isinstance(v, float):
            return round(v, 9)
        if isinstance(v, (int, str, bool)) or v is None:
            return v
        return repr(type(v).__name__)
    d = {k: plain(v) for k, v in s.__dict__.items() if k != "_lattice"}
    return {
        "type": type(s).__name__, "title": s.title, "pdffit": plain(s.pdffit),
        "cell": [round(x, 9) for x in s.lattice.abcABG()],
        "atoms": [[str(a.element), [round(float(x), 9) for x in a.xyz], round(float(a.occupancy), 9), str(a.label)] for a in s],
        "atoms_on_lattice": all(a.lattice is s.lattice for a in s),
        "inst": d,
    }


def diff(a, b, path=""):
    if type(a) is not type(b):
        return [(path, a, b)]
    if isinstance(a, dict):
        out = []
        for k in sorted(set(a) | set(b)):
            if k not in a or k not in b:
                out.append((path + "." + k, a.get(k, "<absent>"), b.get(k, "<absent>")))
            else:
                out += diff(a[k], b[k], path + "." + k)
        return out
    if a != b:
        return [(path, a, b)]
    return []


def mutable_paths(obj, prefix, depth=0):
    """(expression text, container) for every list / dict reachable from the instance attributes of obj"""
    out = []
    if depth > 3:
        return out
    if isinstance(obj, dict):
        out.append((prefix, obj))
        for k, v in obj.items():
            if isinstance(k, (str, int)):
                out += mutable_paths(v, "%s[%r]" % (prefix, k), depth + 1)
    elif isinstance(obj, list):
        out.append((prefix, obj))
        for i, v in enumerate(obj[:8]):
            out += mutable_paths(v, "%s[%d]" % (prefix, i), depth + 1)
    return out


def edit_in_place(rng, stru, history):
    """one random in-place edit of a container reachable from stru.__dict__ (not atoms, not the lattice)"""
    cands = []
    for k, v in stru.__dict__.items():
        if k == "_lattice":
            continue
        cands += mutable_paths(v, "stru.%s" % k)
    if not cands:
        return False
    name, c = rng.choice(cands)
    if isinstance(c, list):
        if c and rng.random() < 0.6:
            i = rng.randrange(len(c))
            val = c[i] + 1 if isinstance(c[i], int) and not isinstance(c[i], bool) else (c[i] + 0.25 if isinstance(c[i], float) else 7)
            c[i] = val
            history.append("%s[%d] = %r" % (name, i, val))
        elif rng.random() < 0.5:
            new = [(x + 1 if isinstance(x, (int, float)) and not isinstance(x, bool) else x) for x in c] or [3]
            c[:] = new
            history.append("%s[:] = %r" % (name, new))
        else:
            c.append(5)
            history.append("%s.append(5)" % name)
    else:
        keys = [k for k, v in c.items() if isinstance(v, (int, float)) and not isinstance(v, bool)]
        if keys and rng.random() < 0.7:
            k = rng.choice(keys)
            c[k] = c[k] + 1.5
            history.append("%s[%r] = %r" % (name, k, c[k]))
        else:
            c["zz_stale"] = 1
            history.append("%s['zz_stale'] = 1" % name)
    return True


def main():
    seed = int(sys.argv[1]) if len(sys.argv) > 1 else 1
    nrand = int(sys.argv[2]) if len(sys.argv) > 2 else 30
    rng = random.Random(seed)
    from diffpy.structure import PDFFitStructure, Structure
    classes = {"Structure": Structure, "PDFFitStructure": PDFFitStructure}
    sources = [("cif", CIF), ("discus", DISCUS_NO_NCELL), ("xyz", XYZ), ("rawxyz", RAWXYZ)]
    # more sources: what the library itself writes for a small structure, in every output format
    try:
        from diffpy.structure.parsers import outputFormats
        base = PDFFitStructure()
        base.readStr(CIF, "cif")
        for f in outputFormats():
            try:
                sources.append((f, base.writeStr(f)))
            except Exception:
                pass
    except Exception:
        pass

    def load(cname, fmt, src, target=None):
        t = classes[cname]() if target is None else target
        try:
            t.readStr(src, fmt)
        except Exception as e:
            return {"raised": type(e).__name__}
        return snapshot(t)

    # phase 0: pristine references
    ref = {}
    for cname in classes:
        for i, (fmt, src) in enumerate(sources):
            ref[(cname, i)] = load(cname, fmt, src)
    n_eval = 0
    out = []

    def compare(history, used, cname, where):
        nonlocal n_eval
        for i, (fmt, src) in enumerate(sources):
            for label, target in (("used", copy.copy(used) if False else used), ("new", None)):
                if label == "used" and where == "new-only":
                    continue
                got = load(cname, fmt, src, target)
                n_eval += 1
                d = diff(ref[(cname, i)], got)
                if d:
                    path, want, have = d[0]
                    out.append({"history": list(history), "class": cname, "format": fmt, "source": src, "target": label,
                                "attr": path.lstrip("."), "pristine": want, "after_history": have})

    # phase 1 + 2: fixed histories
    h = ["stru = PDFFitStructure()", "stru.pdffit['ncell'][:] = [2, 2, 2, 16]", "stru.pdffit['dcell'][0] = 0.01"]
    stru = PDFFitStructure()
    stru.pdffit["ncell"][:] = [2, 2, 2, 16]
    stru.pdffit["dcell"][0] = 0.01
    compare(h, stru, "PDFFitStructure", "both")
    h = ["stru = PDFFitStructure()", "stru.readStr(CIF, 'cif')", "stru.pdffit['ncell'][:] = [2, 2, 2, 8 * len(stru)]", "stru.pdffit['dcell'][0] = 0.01"]
    stru = PDFFitStructure()
    stru.readStr(CIF, "cif")
    stru.pdffit["ncell"][:] = [2, 2, 2, 8 * len(stru)]
    stru.pdffit["dcell"][0] = 0.01
    compare(h, stru, "PDFFitStructure", "both")
    # random histories on both classes, optionally pre-loaded from any source
    for k in range(nrand):
        cname = rng.choice(["PDFFitStructure", "PDFFitStructure", "Structure"])
        history = ["stru = %s()" % cname]
        stru = classes[cname]()
        if rng.random() < 0.6:
            fmt, src = rng.choice(sources)
            try:
                stru.readStr(src, fmt)
                history.append("stru.readStr(<%s source>, %r)" % (fmt, fmt))
            except Exception:
                pass
        edits = 0
        for _ in range(rng.randint(1, 3)):
            edits += bool(edit_in_place(rng, stru, history))
        if edits:
            compare(history, stru, cname, "both")
    seen = set()
    for o in out:
        key = (o["attr"], o["format"], o["target"], o["class"])
        if key in seen:
            continue
        seen.add(key)
        print("DIFF " + json.dumps(o, default=str))
    print("EVALUATED %d" % n_eval)


if __name__ == "__main__":
    main()
