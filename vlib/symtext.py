"""Correspondence between Model/C11_SymText.v (get_symop, parse_tpart) and p_cif.getSymOp / _parseSymOpTranslation.

Strings: (a) every string up to a length bound over a small alphabet (translation parts), (b) operations rendered
from the grammar the round-trip theorem quantifies over, in all styles, (c) single-character faults of (b)
(insert / delete / replace at every position class), (d) a fixed corpus.  Results are compared exactly for the
outcome class and the rotation rows, and as numbers (tolerance 1e-9, modulo 1 for operations) for translations."""
import itertools
import math
import re
from fractions import Fraction

ALPHA_T = "015.+-eE/ x*"
FAULT_CHARS = "0179.+-eE/xyzXZ,; *()_[]'\"aj\t"


def coq_str(s):
    if any(ord(c) < 32 and c != "\t" or ord(c) > 126 for c in s):
        raise ValueError("non-ASCII")
    return '"%s"' % s.replace('"', '""')


def exhaustive_tparts(maxlen):
    out = []
    for n in range(maxlen + 1):
        for tup in itertools.product(ALPHA_T, repeat=n):
            out.append("".join(tup))
    return out


def rand_number(rng):
    kind = rng.random()
    ip = "".join(rng.choice("0123456789") for _ in range(rng.randint(0, 3)))
    fp = "".join(rng.choice("0123456789") for _ in range(rng.randint(0, 3)))
    if kind < 0.45:
        m = ip or "1"
    elif kind < 0.8:
        m = ip + "." + fp if (ip or fp) else "0."
    else:
        m = "." + (fp or "5")
    if rng.random() < 0.2:
        m += rng.choice("eE") + rng.choice(["", "+", "-"]) + str(rng.randint(0, 3))
    if rng.random() < 0.5:
        d = str(rng.randint(0, 12)) if rng.random() < 0.8 else "%d.%s" % (rng.randint(0, 9), rng.choice(["", "0", "5", "25"]))
        m += "/" + d
    return m


def rand_tpart(rng):
    n = rng.choice([0, 1, 1, 1, 2, 3])
    s = ""
    for i in range(n):
        sg = rng.choice("+-") if (i or rng.random() < 0.6) else ""
        s += sg + rand_number(rng)
    return s


def rand_row(rng):
    terms = []
    for v in rng.sample("xyz", rng.choice([1, 1, 1, 2, 3])):
        terms.append(rng.choice("+-") + (v.upper() if rng.random() < 0.2 else v))
    t = rand_tpart(rng)
    if t and t[0] not in "+-":
        t = "+" + t
    k = rng.random()
    if k < 0.45:
        s = "".join(terms) + t
    elif k < 0.9:
        s = t + "".join(terms)
    else:
        mid = rng.randrange(len(terms) + 1)
        s = "".join(terms[:mid]) + t + "".join(terms[mid:])
    if s[:1] == "+" and rng.random() < 0.7:
        s = s[1:]
    if rng.random() < 0.3:
        s = " ".join(s)
    return s


def rand_op(rng):
    return ",".join(rand_row(rng) for _ in range(rng.choice([3, 3, 3, 3, 2, 4])))


def faults(rng, s, k):
    out = []
    for _ in range(k):
        p = rng.randrange(len(s) + 1)
        c = rng.choice(FAULT_CHARS)
        kind = rng.random()
        if kind < 0.4:
            out.append(s[:p] + c + s[p:])
        elif kind < 0.7 and p < len(s):
            out.append(s[:p] + s[p + 1:])
        elif p < len(s):
            out.append(s[:p] + c + s[p + 1:])
    return out


CORPUS_OPS = ["x,y,z", "-x+1/2, y + .5 ,1/4-Z", "x,y", "", ",,", "x+1/2*3,y,z", "x,y+1/4;8,z", "x,y,1/2_-z", "-x+3/4)2,-y,-z", "x,y,z+1/2e3",
              "x-y,x,z+5e-1", "x,y,z+1./3", "x,y,z+1/0", "x,y,z+1/0.0", "x,y,z,foo", "-x-1/4,+y+3/2,-2+z", "x+1e,y,z", "xx,y,z", "1/2e3+x,y,z",
              ".5+x,y,z", "x+.5,-.25+y,z", "x,y,z+__import__('os')", "x,y,z+1j", "x,y,z+0x10", "x,y,z+1_0", "x,y,z+ 1 / 2", "x,y,z+1//2", "x,y,z+1/2/3",
              "x,y,z+--1", "x,y,z+1e+", "x,y,z+1e+2", "X,Y,Z", "x\t,y,z", "x,y,z+inf", "x,y,z+nan", "+x,+y,+z", "x+y+z,y,z", "2x,y,z", "x*2,y,z", "x/2,y,z",
              "x,y,z+1.", "x,y,z+.", "x,y,z+1.e1", "x,y,z+1.5/2.5", "x,y,z-1e-3/4", "-x-y-z-1/2-1/3-1/6,y,z"]


def live_tpart(s):
    from diffpy.structure.parsers.p_cif import _parseSymOpTranslation
    try:
        return ("ok", _parseSymOpTranslation(s))
    except ValueError:
        return ("value", None)
    except Exception as e:      # noqa
        return ("other:" + type(e).__name__, None)


def live_op(s):
    from diffpy.structure.parsers.p_cif import getSymOp
    try:
        o = getSymOp(s)
        return ("ok", [int(round(v)) for v in o.R.flatten()], [float(v) for v in o.t], [float(v) for v in o.R.flatten()])
    except ValueError:
        return ("value",)
    except IndexError:
        return ("index",)
    except Exception as e:      # noqa
        return ("other:" + type(e).__name__,)


def _big(s):
    """some number in the text exceeds 1e5: float addition then no longer keeps 1e-7 of the fractional part"""
    for tok in re.findall(r"(?:\d+\.?\d*|\.\d+)(?:[eE][-+]?\d+)?", s.replace(" ", "")):
        try:
            if abs(float(tok)) > 1e5:
                return True
        except ValueError:
            pass
    return False


def _close(q, f, mod1):
    if not math.isfinite(f):
        return None
    d = abs(float(q) - f)
    if mod1:
        d = min(d, abs(1 - d))
    return d <= 1e-7 * (1 + abs(f))


def run_model(ctx, tparts, ops, shard=4000):
    """evaluate the model in the kernel; returns (list of encodings for tparts, for ops) or None"""
    res_t, res_o = [], []
    for kind, items, fn, acc in (("t", tparts, "fun s => encode_t (parse_tpart (Str s))", res_t), ("o", ops, "fun s => encode (get_symop (Str s))", res_o)):
        for k in range(0, len(items), shard):
            part = items[k:k + shard]
            text = ["From Coq Require Import List ZArith String.", "From DS Require Import Base.C04_Text Model.C11_SymText.",
                    "Import ListNotations.", "Open Scope string_scope.",
                    "Definition cases : list string := [%s]." % ";\n".join(coq_str(s) for s in part),
                    "Eval vm_compute in map (%s) cases." % fn]
            rc, out = ctx.coq_eval("symtext_%s_%d" % (kind, k), "\n".join(text), timeout=900)
            if rc != 0:
                return None, out[-400:]
            body = out[out.index("=") + 1:out.rindex(":")]
            lists = re.findall(r"\[([^\[\]]*)\]", body)
            enc = [[int(x) for x in re.findall(r"-?\d+", l.replace("%Z", ""))] for l in lists]
            if len(enc) != len(part):
                return None, "parsed %d results for %d cases" % (len(enc), len(part))
            acc.extend(enc)
    return (res_t, res_o), ""


def compare(ctx, tparts, ops, res):
    res_t, res_o = res
    bad = []
    skipped = 0
    for s, m in zip(tparts, res_t):
        lv = live_tpart(s)
        ctx.count(("tpart", lv[0], min(len(s), 6)))
        if lv[0] == "ok":
            ok = m[0] == 0 and _close(Fraction(m[1], m[2]), lv[1], False) if m[0] == 0 else False
            if m[0] == 0 and not math.isfinite(lv[1]):
                skipped += 1
                ok = True
        else:
            ok = lv[0] == "value" and m == [1]
        if not ok:
            bad.append(("tpart", s, lv[0] if lv[0] != "ok" else lv[1], m))
    for s, m in zip(ops, res_o):
        lv = live_op(s)
        ctx.count(("op", lv[0]))
        if lv[0] == "ok":
            ok = m[0] == 0 and m[1:10] == lv[1] and lv[3] == [float(v) for v in lv[1]]
            if ok and (re.search(r"[eE][-+]?\d{2,}|\d{10,}", s.replace(" ", "")) or _big(s)):
                skipped += 1        # magnitudes at which float addition no longer keeps the fraction
            elif ok:
                for i in range(3):
                    c = _close(Fraction(m[10 + 2 * i], m[11 + 2 * i]), lv[2][i], True)
                    if c is None:
                        skipped += 1
                    elif not c:
                        ok = False
        else:
            ok = (lv[0], m) in (("value", [1]), ("index", [2]))
        if not ok:
            bad.append(("op", s, lv[:3], m))
    return bad, skipped
