"""C07 helpers: crystals -> CIF spellings, abstract blocks for the Coq model, exact oracle, result comparison.

A *crystal* is a plain semantic description (nothing here looks at the code under test except the live table
objects converted to exact operations by c02_orbit.exact_ops):
  {"si": index in SpaceGroupList, "cell": (a, b, c, alpha, beta, gamma),
   "sites": [{"label", "symbol", "x": 3 Fractions (multiples of 1/GRID), "occ": Fraction,
              "adp": None | ("iso", Fraction) | ("ani", 3x3 Fractions, allowed at the site)}],
   "adp_type_column": bool}
A *spelling* says how the crystal is written; `build(crystal, spelling)` returns (cif_text, block) where block is the
abstract content (what PyCifRW hands to P_cif) given to the model.
"""
import math
import re
from fractions import Fraction as F

import numpy

from vlib import c02_orbit

GRID = 120000                   # model grid: multiples of 1e-4, 1/3, 1/8, 1/24 ...
PI_Q = F(math.pi).limit_denominator(10 ** 7)      # 5419351/1725033, relative error 7e-15: small numbers for the model run
EPS_Q = F(1, 10 ** 8)
TOL_POS = 1e-6
TOL_U = 1e-8
UTOB = 8 * math.pi ** 2

CELL_ITEMS = ["_cell_length_a", "_cell_length_b", "_cell_length_c", "_cell_angle_alpha", "_cell_angle_beta", "_cell_angle_gamma"]


# ------------------------------------------------------------------ lattice (own formulas, standard setting)
def cosd(x):
    x = float(x)
    return {60.0: 0.5, 90.0: 0.0, 120.0: -0.5}.get(x, math.cos(math.radians(x)))


def sind(x):
    x = float(x)
    return {90.0: 1.0, 30.0: 0.5, 150.0: 0.5}.get(x, math.sin(math.radians(x)))


def lattice(cell):
    """Quantities of Lattice(a,b,c,alpha,beta,gamma) that the Atom ADP code and fractional/cartesian use."""
    a, b, c, al, be, ga = (float(v) for v in cell)
    ca, cb, cg = cosd(al), cosd(be), cosd(ga)
    sa, sb, sg = sind(al), sind(be), sind(ga)
    vunit = math.sqrt(1.0 + 2.0 * ca * cb * cg - ca * ca - cb * cb - cg * cg)
    ar, br, cr = sa / (a * vunit), sb / (b * vunit), sg / (c * vunit)
    cgr = (ca * cb - cg) / (sa * sb)
    sgr = math.sqrt(1.0 - cgr * cgr)
    base = numpy.array([[1.0 / ar, -cgr / sgr / ar, cb * a], [0.0, b * sa, b * ca], [0.0, 0.0, c]])
    metrics = numpy.array([[a * a, a * b * cg, a * c * cb], [b * a * cg, b * b, b * c * ca], [c * a * cb, c * b * ca, c * c]])
    recbase = numpy.linalg.inv(base)
    normbase = base * numpy.array([[ar], [br], [cr]])
    recnormbase = recbase / numpy.array([ar, br, cr])
    iu = recnormbase.T @ recnormbase
    for i in range(3):
        iu[i, i] = 1.0
    return {"a": a, "b": b, "c": c, "ar": ar, "br": br, "cr": cr, "ca": ca, "cb": cb, "cg": cg, "metrics": metrics,
            "base": base, "normbase": normbase, "isotropicunit": iu, "recbase": recbase}


CART = (1.0, 1.0, 1.0, 90.0, 90.0, 90.0)

# cells tried from the least to the most symmetric; the first one whose metric every rotation part preserves is used
CANDIDATE_CELLS = [
    (5.13, 6.27, 7.41, 83.0, 97.0, 104.0), (5.13, 6.27, 7.41, 90.0, 104.0, 90.0), (5.13, 6.27, 7.41, 90.0, 90.0, 104.0),
    (5.13, 6.27, 7.41, 104.0, 90.0, 90.0), (5.13, 6.27, 7.41, 90.0, 90.0, 90.0), (5.13, 5.13, 7.41, 90.0, 90.0, 90.0),
    (7.41, 5.13, 5.13, 90.0, 90.0, 90.0), (5.13, 7.41, 5.13, 90.0, 90.0, 90.0), (5.13, 5.13, 7.41, 90.0, 90.0, 120.0),
    (5.13, 5.13, 5.13, 80.0, 80.0, 80.0), (5.13, 5.13, 5.13, 90.0, 90.0, 90.0),
]


def cell_for(ops):
    for cell in CANDIDATE_CELLS:
        G = lattice(cell)["metrics"]
        if all(numpy.allclose(numpy.array(R, dtype=float).reshape(3, 3).T @ G @ numpy.array(R, dtype=float).reshape(3, 3), G, atol=1e-9)
               for R, _ in ops):
            return cell
    return None


# ------------------------------------------------------------------ exact oracle
def mat(R):
    return [[R[3 * i + j] for j in range(3)] for i in range(3)]


def rot_tensor(R, U):
    """R U R^T with exact entries."""
    M = mat(R)
    RU = [[sum(M[i][k] * U[k][j] for k in range(3)) for j in range(3)] for i in range(3)]
    return [[sum(RU[i][k] * M[j][k] for k in range(3)) for j in range(3)] for i in range(3)]


def allowed_tensor(ops, stab, rng, scale=F(1, 10000)):
    """A symmetric positive tensor invariant under the stabiliser: scale * sum_h R_h U0 R_h^T, U0 integer."""
    while True:
        A = [[rng.randrange(-3, 4) for _ in range(3)] for _ in range(3)]
        U0 = [[sum(A[i][k] * A[j][k] for k in range(3)) + (6 if i == j else 0) for j in range(3)] for i in range(3)]
        acc = [[F(0)] * 3 for _ in range(3)]
        for h in stab:
            t = rot_tensor(ops[h][0], U0)
            acc = [[acc[i][j] + t[i][j] for j in range(3)] for i in range(3)]
        U = [[acc[i][j] * scale for j in range(3)] for i in range(3)]
        # keep magnitudes sensible (<= 0.2) by rescaling with a power of ten
        m = max(abs(v) for row in U for v in row)
        while m > F(1, 5):
            U = [[v / 10 for v in row] for row in U]
            m /= 10
        return U


def site_is_cubic(ops, stab):
    """Exact: the space of symmetric tensors invariant under the stabiliser has dimension one."""
    from vlib import sglive
    rs = set(ops[h][0] for h in stab)
    return sum(1 for R in rs if sglive.rot_order(R) == 3) >= 8


def expected(crystal, ops, order=None):
    """Union of orbits in site order: [(label, symbol-as-element, pos (Fractions), occ, U 3x3 Fractions or None, Uiso)]
    `order`: the operations in the order the file lists them (indices), default table order."""
    idx = list(range(len(ops))) if order is None else list(order)
    oo = [ops[i] for i in idx]
    zero = (F(0),) * 3
    out = []
    for s in crystal["sites"]:
        pos, fibres, _ = c02_orbit.orbit(oo, zero, tuple(s["x"]))
        for j, (p, fb) in enumerate(zip(pos, fibres)):
            lab = s["label"] if j == 0 else "%s_%d" % (s["label"], j + 1)
            U = None
            if s["adp"] is not None and s["adp"][0] == "ani":
                U = rot_tensor(oo[fb[0]][0], s["adp"][1])
            uiso = s["adp"][1] if (s["adp"] is not None and s["adp"][0] == "iso") else None
            out.append({"label": lab, "element": element_of(s["symbol"]), "pos": p, "occ": s["occ"], "U": U, "Uiso": uiso,
                        "site": s["label"]})
    return out


def element_of(symbol):
    """What the structure should carry for a CIF type symbol: the symbol itself, capitalised (Na1+, O2-, C)."""
    return symbol[:1].upper() + symbol[1:].lower()


# ------------------------------------------------------------------ number rendering
def dec_str(x, digits):
    """Decimal text of an exact Fraction with `digits` decimals (round half up)."""
    q = F(x)
    neg = q < 0
    n = int(abs(q) * 10 ** digits + F(1, 2))
    s = "%d.%0*d" % (n // 10 ** digits, digits, n % 10 ** digits) if digits else "%d" % n
    return ("-" if neg and n else "") + s


def with_esd(s, rng):
    if re.fullmatch(r"-?\d+(\.\d*)?", s):
        return "%s(%d)" % (s, rng.randrange(1, 30))
    return s


# ------------------------------------------------------------------ spelling -> CIF text and abstract block
def op_text(R, t12, style, up_blank_sep=False):
    """Same renderer as Model/C07_SymopText.render (styles 0..8 in the order of all_styles)."""
    out = []
    for i in range(3):
        row = R[3 * i:3 * i + 3]
        k = t12[i]
        up = style == 3
        names = "XYZ" if up else "xyz"
        terms = [(("+" if c > 0 else "-") + names[j]) * abs(c) for j, c in enumerate(row)]
        if style == 5:
            terms = terms[::-1]
        v = "".join(terms)
        g = math.gcd(k, 12) if k else 12
        fr = "%d/%d" % (k // g, 12 // g)

        def strip_plus(s):
            return s[1:] if s.startswith("+") else s
        if style == 0 or style == 5:
            s = strip_plus(v + ("+" + fr if k else ""))
        elif style == 1:
            s = strip_plus(v) if not k else fr + v
        elif style == 2:
            s = strip_plus(v + ("+0.%06d" % ((k * 10 ** 6 * 2 + 12) // 24) if k else ""))
        elif style == 3:
            s = strip_plus(v + ("+" + fr if k else ""))
            s = " " + "".join((" %s " % ch) if ch in "+-" else ch for ch in s) + " "
        elif style == 4:
            s = v + ("+" + fr if k else "")
        elif style == 6:
            s = strip_plus(v + ("+%d/12" % k if k else ""))
        elif style == 7:
            g2 = math.gcd(12 - k, 12)
            s = strip_plus(v + ("-%d/%d" % ((12 - k) // g2, 12 // g2) if k else ""))
        elif style == 8:
            s = strip_plus(v + ("+0.%05d" % ((k * 10 ** 5 * 2 + 12) // 24) if k else ""))
        else:
            raise ValueError(style)
        out.append(s)
    return (", " if style == 3 else ",").join(out)


def quote(v):
    if v == "" or re.search(r"\s", v) or v[0] in "_#$'\";[]" or v.lower().startswith(("data_", "loop_", "save_", "global_", "stop_")):
        return "'%s'" % v if "'" not in v else '"%s"' % v
    return v


def build(crystal, ops12, sp, rng):
    """-> (cif text, block dict).  `sp` keys (all optional):
       sym: "ops" | "hm" | "number" | "ops+hm" ;  op_style: 0..8 ; op_order: list of indices ; op_item: 0|1
       hm_item: 0|1|2 ; num_item: 0|1 ; hm_text: string to write (default short_name)
       coords: "fract" | "cartn" ; ub_iso: "U" | "B" ; ub_aniso: "U" | "B" ; esd: bool
       site_perm / aniso_perm: permutations of the column lists ; aniso_first: bool ; sym_last: bool ; name_case: bool
       extra_cols: bool (an unknown column that must be ignored)"""
    cell = crystal["cell"]
    L = lattice(cell)
    esd = sp.get("esd", False)

    def num(s):
        return with_esd(s, rng) if esd else s

    items = []      # (name, value) single items in order
    cellvals = [dec_str(F(repr(v)), 4) if i < 3 else dec_str(F(repr(v)), 2) for i, v in enumerate(cell)]
    cellvals = [num(v) for v in cellvals]
    # --- site loop columns
    sites = crystal["sites"]
    cols = [("_atom_site_label", [s["label"] for s in sites]), ("_atom_site_type_symbol", [s["symbol"] for s in sites])]
    if sp.get("coords", "fract") == "fract":
        for i, nm in enumerate("xyz"):
            cols.append(("_atom_site_fract_" + nm, [num(dec_str(s["x"][i], 7)) for s in sites]))
    else:
        for i, nm in enumerate("xyz"):
            vals = []
            for s in sites:
                c = numpy.array([float(v) for v in s["x"]]) @ L["base"]
                vals.append(num("%.10f" % c[i]))
            cols.append(("_atom_site_cartn_" + nm, vals))
    has_u = any(s["adp"] is not None for s in sites)
    if has_u:
        vals = []
        b = sp.get("ub_iso", "U") == "B"
        for s in sites:
            if s["adp"] is None:
                vals.append("?" if rng.random() < 0.5 else ".")
            else:
                u = s["adp"][1] if s["adp"][0] == "iso" else uequiv(s["adp"][1], L)
                vals.append(num("%.10f" % (float(u) * UTOB)) if b else num(dec_str(F(u), 8) if s["adp"][0] == "iso" else "%.8f" % float(u)))
        cols.append(("_atom_site_B_iso_or_equiv" if b else "_atom_site_U_iso_or_equiv", vals))
    if crystal.get("adp_type_column"):
        nm = "_atom_site_adp_type" if not sp.get("thermal_name") else "_atom_site_thermal_displace_type"
        cols.append((nm, [("Uani" if (s["adp"] is not None and s["adp"][0] == "ani") else "Uiso") for s in sites]))
    cols.append(("_atom_site_occupancy", [num(dec_str(s["occ"], 4)) for s in sites]))
    if sp.get("extra_cols"):
        cols.insert(2, ("_atom_site_symmetry_multiplicity", ["%d" % (i + 1) for i in range(len(sites))]))
        cols.append(("_atom_site_calc_flag", ["d"] * len(sites)))
    if sp.get("site_perm") is not None:
        cols = [cols[i] for i in sp["site_perm"]]
    # --- aniso loop
    ani = [s for s in sites if s["adp"] is not None and s["adp"][0] == "ani"]
    acols = None
    if ani:
        b = sp.get("ub_aniso", "U") == "B"
        acols = [("_atom_site_aniso_label", [s["label"] for s in ani])]
        for nm, (i, j) in (("11", (0, 0)), ("22", (1, 1)), ("33", (2, 2)), ("12", (0, 1)), ("13", (0, 2)), ("23", (1, 2))):
            if b:
                acols.append(("_atom_site_aniso_B_" + nm, [num("%.10f" % (float(s["adp"][1][i][j]) * UTOB)) for s in ani]))
            else:
                acols.append(("_atom_site_aniso_U_" + nm, [num(dec_str(s["adp"][1][i][j], 8)) for s in ani]))
        if sp.get("aniso_perm") is not None:
            acols = [acols[i] for i in sp["aniso_perm"]]
    # --- symmetry
    sym = sp.get("sym", "ops")
    blk = {"symop": None, "equivpos": None, "hall": "", "hall_sym": "", "hm_alt": "", "hm_ref": "", "hm_sym": "", "it_number": "", "int_tables": ""}
    optexts = None
    if "ops" in sym:
        order = sp.get("op_order") or list(range(len(ops12)))
        optexts = [op_text(ops12[i][0], ops12[i][1], sp.get("op_style", 0)) for i in order]
        blk["symop" if sp.get("op_item", 1) == 0 else "equivpos"] = optexts
    if "hm" in sym:
        key = ("hm_alt", "hm_ref", "hm_sym")[sp.get("hm_item", 2)]
        blk[key] = sp["hm_text"]
    if "number" in sym:
        key = ("it_number", "int_tables")[sp.get("num_item", 1)]
        blk[key] = sp["num_text"]
    cif_names = {"hall": "_space_group_name_Hall", "hall_sym": "_symmetry_space_group_name_Hall", "hm_alt": "_space_group_name_H-M_alt",
                 "hm_ref": "_space_group_name_H-M_ref", "hm_sym": "_symmetry_space_group_name_H-M", "it_number": "_space_group_IT_number",
                 "int_tables": "_symmetry_Int_Tables_number"}

    def nm(name):
        if not sp.get("name_case"):
            return name
        return "".join(ch.upper() if (k % 3 == 1) else ch for k, ch in enumerate(name))

    # --- text
    parts = {}
    parts["cell"] = ["%-28s %s" % (nm(k), v) for k, v in zip(CELL_ITEMS, cellvals)]
    parts["ids"] = ["%-34s %s" % (nm(cif_names[k]), quote(blk[k])) for k in cif_names if blk[k] != ""]
    symlines = []
    if optexts is not None:
        symlines = ["loop_", nm("_space_group_symop_operation_xyz" if sp.get("op_item", 1) == 0 else "_symmetry_equiv_pos_as_xyz")]
        symlines += ["'%s'" % t for t in optexts]
    parts["sym"] = symlines
    parts["site"] = ["loop_"] + [nm(c[0]) for c in cols] + [" ".join(quote(c[1][r]) for c in cols) for r in range(len(sites))]
    parts["aniso"] = (["loop_"] + [nm(c[0]) for c in acols] + [" ".join(quote(c[1][r]) for c in acols) for r in range(len(ani))]) if acols else []
    order = ["cell", "ids", "sym", "site", "aniso"]
    if sp.get("aniso_first"):
        order = ["cell", "ids", "sym", "aniso", "site"]
    if sp.get("sym_last"):
        order = [o for o in order if o not in ("sym", "ids")] + ["ids", "sym"]
    if sp.get("cell_last"):
        order = [o for o in order if o != "cell"] + ["cell"]
    text = "data_c07\n" + "\n".join("\n".join(parts[o]) for o in order if parts[o]) + "\n"
    blk.update({"cell": cellvals, "site": cols, "aniso": acols, "cellnum": cell})
    return text, blk


def uequiv(U, L):
    """Equivalent isotropic displacement of a tensor given on the reciprocal-normalised basis."""
    a, b, c, ar, br, cr = L["a"], L["b"], L["c"], L["ar"], L["br"], L["cr"]
    u = [[float(v) for v in row] for row in U]
    return (u[0][0] * ar * ar * a * a + u[1][1] * br * br * b * b + u[2][2] * cr * cr * c * c
            + 2 * u[0][1] * ar * br * a * b * L["cg"] + 2 * u[0][2] * ar * cr * a * c * L["cb"] + 2 * u[1][2] * br * cr * b * c * L["ca"]) / 3.0


# ------------------------------------------------------------------ Coq terms
def q(x):
    f = F(x)
    if isinstance(x, float):
        f = f.limit_denominator(10 ** 13)     # lattice quantities: 1e-13 is far below the comparison tolerances
    return "(%d # %d)" % (f.numerator, f.denominator) if f.numerator >= 0 else "((%d) # %d)" % (f.numerator, f.denominator)


def fx(x, digits=18):
    """Decimal literal (Dec m e) of the model's execution instance; floats keep 16 significant digits."""
    if isinstance(x, float):
        f = F(repr(x))
    else:
        f = F(x)
    v = f * 10 ** digits
    n = (2 * v.numerator + v.denominator) // (2 * v.denominator)
    e = -digits
    while n and n % 10 == 0 and e < 0:
        n //= 10
        e += 1
    if n == 0:
        e = 0
    return "(Dec %s %s)" % ("(%d)" % n if n < 0 else "%d" % n, "(%d)" % e if e < 0 else "%d" % e)


def cs(s):
    if any(ord(c) < 32 or ord(c) > 126 for c in s):
        raise ValueError("non-ASCII text in a model case: %r" % s)
    return '"%s"' % s.replace('"', '""')


def qv(v):
    return "(GV %s %s %s)" % tuple(fx(float(x)) for x in v)


def qm(m):
    return "(GM %s %s %s)" % tuple(qv(r) for r in numpy.asarray(m))


def coq_lat(L):
    return "(LD %s %s %s %s %s %s %s %s %s %s %s %s %s %s)" % (
        fx(L["a"]), fx(L["b"]), fx(L["c"]), fx(L["ar"]), fx(L["br"]), fx(L["cr"]), fx(L["ca"]), fx(L["cb"]), fx(L["cg"]),
        qm(L["metrics"]), qm(L["base"]), qm(L["normbase"]), qm(L["isotropicunit"]), fx(EPS_Q))


def coq_loop(cols):
    n = len(cols[0][1]) if cols else 0
    return "(Loop %d [%s])" % (n, "; ".join("(%s, [%s])" % (cs(k), "; ".join(cs(v) for v in vals)) for k, vals in cols))


def coq_optlist(l):
    return "None" if l is None else "(Some [%s])" % "; ".join(cs(s) for s in l)


def coq_block(b):
    cell = "[%s]" % "; ".join("Some %s" % cs(v) for v in b["cell"]) if b["cell"] is not None else "[None; None; None; None; None; None]"
    return "(Block %s %s %s %s %s %s %s %s %s %s %s %s)" % (
        cell, coq_loop(b["site"]), "None" if b["aniso"] is None else "(Some %s)" % coq_loop(b["aniso"]),
        coq_optlist(b["symop"]), coq_optlist(b["equivpos"]), cs(b["hall"]), cs(b["hall_sym"]), cs(b["hm_alt"]), cs(b["hm_ref"]),
        cs(b["hm_sym"]), cs(b["it_number"]), cs(b["int_tables"]))


PRELUDE = """From Coq Require Import ZArith List QArith String.
From DS Require Import Base.ZMat Base.SGDefs Base.C09_GNum Model.GroupCheck Model.C09_Prims Model.C09_AtomADP.
From DS Require Import Model.C11_LookupDefs Model.C07_Text Model.C07_SymopText Model.C07_CifRead Model.C07_Pre.
Import ListNotations.
Open Scope Z_scope.
Open Scope string_scope.
Definition enc_src (s : sgsrc) : list Z :=
  match s with FromOps s => [0; sg_number s] | FromOpsReordered s => [1; sg_number s] | FromId s => [2; sg_number s] | Custom => [3; 0] end.
Definition dz (d : dec) : list Z := [d_m d; d_e d].
Definition enc_atom (a : oatom (T:=dec)) : string * string * list Z :=
  (o_label a, o_elem a, ([vx (o_pos a); vy (o_pos a); vz (o_pos a); (if o_aniso a then 1 else 0)] ++ dz (o_occ a) ++ flat_map dz (flat (o_U a)))%list).
Definition enc (r : res (result (T:=dec))) :=
  match r with
  | Ok x => (0, enc_src (r_sg x), map enc_atom (r_atoms x), match r_cell x with Some l => flat_map dz l | None => [] end)
  | Err EFormat => (1, [], [], []) | Err EEscapes => (2, [], [], []) | Err EUnsupported => (3, [], [], [])
  end.
Definition pi_q : dec := @PI@.
Definition eps_q : dec := @EPS@.
""".replace("@PI@", fx(F(math.pi))).replace("@EPS@", fx(EPS_Q))


def coq_case(b):
    L = lattice(b["cellnum"])
    return "Eval vm_compute in enc (read_cif (DE pi_q eps_q %s %s %d) find_fast Tb_fast %s)." % (coq_lat(L), qm(L["recbase"]), GRID, coq_block(b))


TOK = re.compile(r'"((?:[^"]|"")*)"|(-?\d+)')


def parse_results(out):
    """Results of the Eval lines: list of dicts."""
    res = []
    chunks = re.split(r"\n\s*= ", "\n" + out)[1:]
    for ch in chunks:
        ch = ch.split("\n     : ")[0]
        toks = [(m.group(1).replace('""', '"'), None) if m.group(1) is not None else (None, int(m.group(2))) for m in TOK.finditer(ch.replace("%string", "").replace("%Z", ""))]
        res.append(toks)
    return res


def dval(m, e):
    return F(m) * F(10) ** e


def decode(toks):
    """tokens of one encoded result -> {"status", "src", "atoms": [...], "cell": [...]}"""
    it = iter(toks)
    first = next(it)
    status = first[1]
    if status != 0:
        return {"status": ("ok", "format", "escapes", "unsupported")[status], "atoms": [], "src": None, "cell": []}
    rest = list(it)
    src = (rest[0][1], rest[1][1])
    atoms = []
    i = 2
    while i < len(rest) and rest[i][0] is not None:
        lab, el = rest[i][0], rest[i + 1][0]
        nums = [t[1] for t in rest[i + 2:i + 2 + 4 + 2 + 18]]
        pos = nums[0:3]
        an = bool(nums[3])
        occ = dval(nums[4], nums[5])
        U = [[dval(nums[6 + 2 * (3 * r + c)], nums[7 + 2 * (3 * r + c)]) for c in range(3)] for r in range(3)]
        atoms.append({"label": lab, "element": el, "pos": [F(p, GRID) for p in pos], "aniso": an, "occ": occ, "U": U})
        i += 2 + 24
    cell = [t[1] for t in rest[i:]]
    cell = [dval(cell[2 * k], cell[2 * k + 1]) for k in range(len(cell) // 2)]
    return {"status": "ok", "src": src, "atoms": atoms, "cell": cell}


# ------------------------------------------------------------------ running the implementation
def run_impl(text):
    """Parse with the real P_cif; plain data only (picklable)."""
    from diffpy.structure.parsers import getParser
    from diffpy.structure.structureerrors import StructureFormatError
    from diffpy.structure.spacegroups import SpaceGroupList
    p = getParser("cif")
    try:
        st = p.parse(text)
    except StructureFormatError as e:
        return {"status": "format", "msg": str(e)[:200]}
    except KeyError as e:
        return {"status": "key", "msg": str(e)[:200]}
    except Exception as e:       # anything else leaving the parser
        return {"status": "exc:" + type(e).__name__, "msg": str(e)[:200]}
    if st is None:
        return {"status": "none"}
    sg = p.spacegroup
    tab = next((i for i, g in enumerate(SpaceGroupList) if g is sg), None)
    atoms = [{"label": a.label, "element": a.element, "pos": [float(v) for v in a.xyz], "occ": float(a.occupancy),
              "aniso": bool(a.anisotropy), "U": [[float(v) for v in row] for row in a.U], "Uiso": float(a.Uisoequiv)} for a in st]
    return {"status": "ok", "atoms": atoms, "sg_number": sg.number, "sg_short": sg.short_name, "sg_tab_index": tab,
            "sg_nops": len(sg.symop_list), "cell": [float(v) for v in st.lattice.abcABG()],
            "n_asym": len(p.asymmetric_unit) if p.asymmetric_unit is not None else None}


def pdist(p, qq):
    d = 0.0
    for a, b in zip(p, qq):
        t = (float(a) - float(b)) % 1.0
        d = max(d, min(t, 1.0 - t))
    return d


def udiff(A, B):
    return max(abs(float(A[i][j]) - float(B[i][j])) for i in range(3) for j in range(3))
