"""C04 helpers: talking to the extracted Coq models (ocaml/C04/c04_driver) and building the
per-format *views* of a live Structure (exactly the quantities each writer reads, every number as
the exact decimal expansion of the double)."""
import os
import subprocess
from decimal import Decimal

import numpy

from vlib import core

DRIVER = os.path.join(core.VERIF, "ocaml", "C04", "c04_driver")


def exact(x):
    """Exact plain-decimal text of a double ('-0' for negative zero)."""
    return format(Decimal(float(x)), "f")


class Model:
    """One long-lived driver process; call(fmt, op, tokens) -> list of tokens or None."""

    def __init__(self):
        self.p = subprocess.Popen([DRIVER], stdin=subprocess.PIPE, stdout=subprocess.PIPE, text=True, bufsize=1,
                                  encoding="latin-1")
        self.calls = 0

    def call(self, fmt, op, toks):
        self.calls += 1
        line = "\t".join([fmt, op] + [(t.encode("latin-1").hex() if t != "" else "_") for t in toks])
        self.p.stdin.write(line + "\n")
        self.p.stdin.flush()
        out = self.p.stdout.readline().rstrip("\n")
        if out == "N":
            return None
        if not out.startswith("S"):
            raise RuntimeError("driver protocol error: %r" % out[:200])
        parts = out.split("\t")[1:]
        return [bytes.fromhex(h).decode("latin-1") if h != "." else "" for h in parts]

    def close(self):
        try:
            self.p.stdin.close()
            self.p.wait(timeout=5)
        except Exception:   # noqa: BLE001
            self.p.kill()


def ascii_ok(s):
    return all(32 <= ord(c) < 127 for c in s)


# ---------------------------------------------------------------------------------------------
# views


def view_xyz(s):
    toks = [s.title]
    for a in s:
        c = a.xyz_cartn
        toks += [a.element, exact(c[0]), exact(c[1]), exact(c[2])]
    return toks


def view_rawxyz(s):
    return [""] + view_xyz(s)[1:]


PDFFIT_DEFAULTS = {"scale": 1.0, "delta1": 0.0, "delta2": 0.0, "sratio": 1.0, "rcut": 0.0, "spcgr": "P1", "spdiameter": 0.0,
                   "stepcut": 0.0, "dcell": 6 * [0.0], "ncell": [1, 1, 1, 0]}


def pdffit_dict(s):
    d = dict(PDFFIT_DEFAULTS)
    if getattr(s, "pdffit", None):
        d.update(s.pdffit)
    return d


def view_pdffit(s, raw=False):
    """raw=True: the attributes the reader assigned (a._U), not what the a.U getter rebuilds."""
    d = pdffit_dict(s)
    lat = s.lattice
    toks = [s.title, exact(d["scale"]), exact(d["delta2"]), exact(d["delta1"]), exact(d["sratio"]), exact(d["rcut"]), d["spcgr"],
            exact(d.get("spdiameter", 0.0)), exact(d.get("stepcut", 0.0))]
    toks += [exact(x) for x in (lat.a, lat.b, lat.c, lat.alpha, lat.beta, lat.gamma)]
    toks += [exact(x) for x in d["dcell"]]
    z3, z33 = numpy.zeros(3), numpy.zeros((3, 3))
    for a in s:
        ad = a.__dict__
        U = a._U if raw else a.U
        sx, so, sU = ad.get("sigxyz", z3), ad.get("sigo", 0.0), ad.get("sigU", z33)
        toks += [a.element] + [exact(x) for x in a.xyz] + [exact(a.occupancy)] + [exact(x) for x in sx] + [exact(so)]
        toks += [exact(U[0][0]), exact(U[1][1]), exact(U[2][2]), exact(sU[0][0]), exact(sU[1][1]), exact(sU[2][2])]
        toks += [exact(U[0][1]), exact(U[0][2]), exact(U[1][2]), exact(sU[0][1]), exact(sU[0][2]), exact(sU[1][2])]
    return toks


def view_discus(s):
    d = pdffit_dict(s)
    toks = [s.title, d["spcgr"], exact(d.get("spdiameter", 0.0)), exact(d.get("stepcut", 0.0))]
    toks += [exact(x) for x in s.lattice.abcABG()]
    for a in s:
        toks += [a.element] + [exact(x) for x in a.xyz] + [exact(a.Bisoequiv)]
    return toks


def pdb_iso(s, a):
    return not s.lattice.isanisotropic(a.U)


def view_pdb(s):
    toks = [s.title] + [exact(x) for x in s.lattice.abcABG()]
    for a in s:
        c, U = a.xyz_cartn, a.U
        toks += [a.label or a.element, a.element, exact(c[0]), exact(c[1]), exact(c[2]), exact(a.occupancy), exact(a.Bisoequiv),
                 "1" if pdb_iso(s, a) else "0"]
        # the writer rounds the doubles 1e4 * U[i,j]: the products are part of the view
        toks += [exact(x) for x in 1e4 * numpy.array([U[0, 0], U[1, 1], U[2, 2], U[0, 1], U[0, 2], U[1, 2]])]
    return toks


def view_pdb_read(s):
    """What the reader assigned, in the layout of the model's read answer ('?' = not observable)."""
    cell = tuple(s.lattice.abcABG())
    has = cell != (1.0, 1.0, 1.0, 90.0, 90.0, 90.0)
    toks = [s.title, "1" if has else "0"] + [exact(x) for x in cell]
    for a in s:
        c, U = a.xyz_cartn, a.U
        toks += [a.label, a.element, exact(c[0]), exact(c[1]), exact(c[2]), exact(a.occupancy), "?",
                 "?" if a.anisotropy else exact(a.Bisoequiv), "1" if a.anisotropy else "0"]
        if a.anisotropy:
            toks += [exact(1e4 * x) for x in (U[0][0], U[1][1], U[2][2], U[0][1], U[0][2], U[1][2])]
        else:
            toks += ["0"] * 6
    return toks


XCFG_REGEN = __import__("re").compile(r"(occupancy|[BU]iso|[BU][123][123])$")


def xcfg_box(s):
    """Box size A and shift of the XCFG writer: a line-by-line mirror of the numpy expressions of P_xcfg.toLines
    (these doubles are inputs of the model, which covers their printing and everything after them)."""
    allxyz = numpy.array([a.xyz for a in s])
    lo_xyz = allxyz.min(axis=0)
    hi_xyz = allxyz.max(axis=0)
    max_range_xyz = (hi_xyz - lo_xyz).max()
    if numpy.allclose(s.lattice.abcABG(), (1, 1, 1, 90, 90, 90)):
        max_range_xyz += 2
    p_A = numpy.ceil(max_range_xyz + 1.0e-13)
    hi_ucvect = max([numpy.sqrt(numpy.dot(v, v)) for v in s.lattice.base])
    if hi_ucvect * p_A < 3.5:
        p_A = numpy.ceil(3.5 / hi_ucvect)
    p_dxyz = numpy.zeros(3, dtype=float)
    for i in range(3):
        if lo_xyz[i] / p_A < 0.0 or hi_xyz[i] / p_A >= 1.0 or (lo_xyz[i] == hi_xyz[i] and lo_xyz[i] == 0.0):
            p_dxyz[i] = 0.5 - (hi_xyz[i] + lo_xyz[i]) / 2.0 / p_A
    return p_A, p_dxyz


def view_xcfg(s):
    if len(s) == 0 or any("v" in a.__dict__ for a in s):
        return None
    p_A, p_dxyz = xcfg_box(s)
    kept = [n for n in (getattr(s, "xcfg", None) or {}).get("auxiliaries", []) if not XCFG_REGEN.match(n)]
    toks = [exact(p_A)] + [exact(x) for x in numpy.ravel(s.lattice.base)] + [str(len(kept))] + kept
    for a in s:
        pos = a.xyz / p_A + p_dxyz
        U = a.U
        toks += [a.element] + [exact(x) for x in pos] + [exact(a.occupancy)]
        toks += [exact(U[0, 0]), exact(U[1, 1]), exact(U[2, 2]), exact(U[0, 1]), exact(U[0, 2]), exact(U[1, 2])]
        toks += ["1" if s.lattice.isanisotropic(U) else "0"] + [exact(getattr(a, n)) for n in kept]
    return toks


def xcfg_read_diff(model_toks, s1):
    """Compare the model's read answer with the structure the implementation built."""
    n, A = int(model_toks[0]), float(model_toks[1])
    base = [float(x) for x in model_toks[2:11]]
    naux = int(model_toks[11])
    names = model_toks[12:12 + naux]
    rest = model_toks[12 + naux:]
    if n != len(s1):
        return "atom count %d vs %d" % (n, len(s1))
    if names != list((getattr(s1, "xcfg", None) or {}).get("auxiliaries", [])):
        return "auxiliaries %r vs %r" % (names, getattr(s1, "xcfg", None))
    for x, y in zip(base, numpy.ravel(s1.lattice.base)):
        if abs(x - y) > 1e-12 * max(1.0, abs(x)):
            return "base %r vs %r" % (x, float(y))
    w = 1 + 3 + naux
    for k, a in enumerate(s1):
        row = rest[k * w:(k + 1) * w]
        if row[0] != a.element:
            return "atom %d element %r vs %r" % (k, row[0], a.element)
        f = [float(x) for x in row[1:]]
        for i in range(3):
            if abs(A * f[i] - a.xyz[i]) > 1e-12 * max(1.0, abs(a.xyz[i])):
                return "atom %d xyz[%d] %r vs %r" % (k, i, A * f[i], float(a.xyz[i]))
        for nm, v in zip(names, f[3:]):
            real = a.Uisoequiv if nm == "Uiso" else a.Bisoequiv if nm == "Biso" else getattr(a, nm)
            if abs(v - real) > 1e-12 * max(1.0, abs(v)):
                return "atom %d %s %r vs %r" % (k, nm, v, float(real))
    return None


def view_cif(s, date=None):
    import time
    if "\n" in s.title:
        return None
    date = date or "%04i-%02i-%02i" % time.gmtime()[:3]
    toks = [s.title, date] + [exact(x) for x in (s.lattice.a, s.lattice.b, s.lattice.c, s.lattice.alpha, s.lattice.beta, s.lattice.gamma)]
    for a in s:
        U = a.U
        toks += [a.element] + [exact(x) for x in a.xyz] + [exact(a.Uisoequiv), "1" if s.lattice.isanisotropic(U) else "0", exact(a.occupancy)]
        toks += [exact(U[0, 0]), exact(U[1, 1]), exact(U[2, 2]), exact(U[0, 1]), exact(U[0, 2]), exact(U[1, 2])]
    return toks


def cif_read_diff(model_toks, s1):
    cell = [float(x) for x in model_toks[:6]]
    for x, y in zip(cell, s1.lattice.abcABG()):
        if x != y:
            return "cell %r vs %r" % (x, y)
    rest = model_toks[6:]
    if len(rest) != 15 * len(s1):
        return "atom count %d vs %d" % (len(rest) // 15, len(s1))
    for k, a in enumerate(s1):
        r = rest[15 * k:15 * (k + 1)]
        if r[0] != a.label or r[1] != a.element:
            return "atom %d label/element %r vs %r" % (k, r[:2], (a.label, a.element))
        for i in range(3):
            # the implementation reduces the DOUBLE nearest to the printed value into the cell, the model the exact decimal:
            # they differ by the rounding of that double (<= 1e-16 * |x|, generated |x| < 1e8)
            dd = abs(float(r[2 + i]) - a.xyz[i])
            if min(dd, abs(dd - 1.0)) > 1e-8:
                return "atom %d xyz[%d] %r vs %r" % (k, i, r[2 + i], float(a.xyz[i]))
        if (r[6] == "1") != bool(a.anisotropy):
            return "atom %d anisotropy %r vs %r" % (k, r[6], a.anisotropy)
        if float(r[7]) != a.occupancy:
            return "atom %d occupancy %r vs %r" % (k, r[7], a.occupancy)
        if a.anisotropy:
            if r[8] != "1":
                return "atom %d: implementation has a tensor, model has none" % k
            U = a.U
            for v, w in zip(r[9:], (U[0, 0], U[1, 1], U[2, 2], U[0, 1], U[0, 2], U[1, 2])):
                if abs(float(v) - w) > 1e-12:
                    return "atom %d U %r vs %r" % (k, v, float(w))
        elif abs(float(r[5]) - a.Uisoequiv) > 1e-15:
            return "atom %d Uiso %r vs %r" % (k, r[5], a.Uisoequiv)
    return None


def cif_tokens_diff(model_toks, text):
    """PyCifRW as the tokenisation oracle: the key/values and loop rows it extracts from the written text must be
    the tokens the model's layout tokenizer produces."""
    import io
    from CifFile import CifFile
    from vlib import c04_gen
    with c04_gen.quiet():
        cf = CifFile(io.StringIO(text), grammar="auto")
    blk = cf[list(cf.keys())[0]]
    it = iter(model_toks)
    nk = int(next(it))
    kv = [(next(it), next(it)) for _ in range(nk)]
    for k, v in kv:
        if k.lower() not in blk or str(blk[k.lower()]) != v.strip("'"):
            return "key %s: model %r, PyCifRW %r" % (k, v, blk.get(k.lower()))
    for loopkey in ("_atom_site_label", "_atom_site_aniso_label"):
        nc = int(next(it))
        cols = [next(it) for _ in range(nc)]
        nr = int(next(it))
        rows = [[next(it) for _ in range(nc)] for _ in range(nr)]
        if nc == 0:
            if loopkey in blk:
                return "loop %s missing in the model" % loopkey
            continue
        lp = blk.GetLoop(loopkey)
        if [c.lower() for c in cols] != [k.lower() for k in lp.keys()]:
            return "loop columns %r vs %r" % (cols, list(lp.keys()))
        real_rows = [list(map(str, r)) for r in zip(*lp.values())]
        if rows != real_rows:
            return "loop rows differ: %r vs %r" % (rows[:1], real_rows[:1])
    return None


READ_DIFF = {"xcfg": xcfg_read_diff, "cif": cif_read_diff}


def pdb_has_sigmas(s):
    return any(k in a.__dict__ for a in s for k in ("sigxyz", "sigo", "sigU"))


VIEWS = {"xyz": view_xyz, "rawxyz": view_rawxyz, "pdffit": view_pdffit, "discus": view_discus, "pdb": view_pdb, "xcfg": view_xcfg, "cif": view_cif}
RAW_VIEWS = {"pdffit": lambda s: view_pdffit(s, raw=True), "pdb": view_pdb_read}


def _num(tok):
    try:
        return float(tok)
    except ValueError:
        return None


def loose_token(fmt, i):
    """Tokens that the implementation only exposes through a float conversion of what the reader stored
    (discus: Bisoequiv = UtoB * (BtoU * B)): compared to 1e-13 relative instead of exactly."""
    if fmt == "discus":
        return i >= 10 and (i - 10) % 5 == 4
    if fmt == "pdb":      # Cartesian -> fractional -> Cartesian, B -> Uiso -> B, k * 1e-4 * 1e4
        return i >= 8
    return False


def tokens_equal(fmt, model_toks, real_toks):
    """Field-for-field comparison of a model answer with the view of the real result.  A numeric model
    token is the exact decimal the reader saw; float() of it must be the very double the implementation holds
    (same sign of zero).  Strings are compared literally."""
    if len(model_toks) != len(real_toks):
        return "token count %d vs %d" % (len(model_toks), len(real_toks))
    for i, (m, r) in enumerate(zip(model_toks, real_toks)):
        if m == r or r == "?":
            continue
        fm, fr = _num(m), _num(r)
        if fm is None or fr is None:
            return "token %d: model %r, implementation %r" % (i, m, r)
        if loose_token(fmt, i) and abs(fm - fr) <= 1e-12 * max(abs(fm), abs(fr)) + (1e-9 if fmt == "pdb" else 0.0):
            continue
        if fm != fr or (fm == 0 and str(fm) != str(fr)):
            return "token %d: model %s, implementation %s" % (i, m, r)
    return None
