"""C04 helpers: talking to the extracted Coq models (ocaml/C04/c04_driver) and building the
per-format *views* of a live Structure (exactly the quantities each writer reads, every number as
the exact decimal expansion of the double)."""
import os
import subprocess
from decimal import Decimal

import numpy

from vlib import core

DRIVER = os.path.join(core.VERIF, "ocaml", "C04", "c04_driver")


def exact(x):
    """Exact plain-decimal text of a double ('-0' for negative zero)."""
    return format(Decimal(float(x)), "f")


class Model:
    """One long-lived driver process; call(fmt, op, tokens) -> list of tokens or None."""

    def __init__(self):
        self.p = subprocess.Popen([DRIVER], stdin=subprocess.PIPE, stdout=subprocess.PIPE, text=True, bufsize=1,
                                  encoding="latin-1")
        self.calls = 0

    def call(self, fmt, op, toks):
        self.calls += 1
        line = "\t".join([fmt, op] + [(t.encode("latin-1").hex() if t != "" else "_") for t in toks])
        self.p.stdin.write(line + "\n")
        self.p.stdin.flush()
        out = self.p.stdout.readline().rstrip("\n")
        if out == "N":
            return None
        if not out.startswith("S"):
            raise RuntimeError("driver protocol error: %r" % out[:200])
        parts = out.split("\t")[1:]
        return [bytes.fromhex(h).decode("latin-1") if h != "." else "" for h in parts]

    def close(self):
        try:
            self.p.stdin.close()
            self.p.wait(timeout=5)
        except Exception:   # noqa: BLE001
            self.p.kill()


def ascii_ok(s):
    return all(32 <= ord(c) < 127 for c in s)


# ---------------------------------------------------------------------------------------------
# views


def view_xyz(s):
    toks = [s.title]
    for a in s:
        c = a.xyz_cartn
        toks += [a.element, exact(c[0]), exact(c[1]), exact(c[2])]
    return toks


def view_rawxyz(s):
    return [""] + view_xyz(s)[1:]


PDFFIT_DEFAULTS = {"scale": 1.0, "delta1": 0.0, "delta2": 0.0, "sratio": 1.0, "rcut": 0.0, "spcgr": "P1", "spdiameter": 0.0,
                   "stepcut": 0.0, "dcell": 6 * [0.0], "ncell": [1, 1, 1, 0]}


def pdffit_dict(s):
    d = dict(PDFFIT_DEFAULTS)
    if getattr(s, "pdffit", None):
        d.update(s.pdffit)
    return d


def view_pdffit(s, raw=False):
    """raw=True: the attributes the reader assigned (a._U), not what the a.U getter rebuilds."""
    d = pdffit_dict(s)
    lat = s.lattice
    toks = [s.title, exact(d["scale"]), exact(d["delta2"]), exact(d["delta1"]), exact(d["sratio"]), exact(d["rcut"]), d["spcgr"],
            exact(d.get("spdiameter", 0.0)), exact(d.get("stepcut", 0.0))]
    toks += [exact(x) for x in (lat.a, lat.b, lat.c, lat.alpha, lat.beta, lat.gamma)]
    toks += [exact(x) for x in d["dcell"]]
    z3, z33 = numpy.zeros(3), numpy.zeros((3, 3))
    for a in s:
        ad = a.__dict__
        U = a._U if raw else a.U
        sx, so, sU = ad.get("sigxyz", z3), ad.get("sigo", 0.0), ad.get("sigU", z33)
        toks += [a.element] + [exact(x) for x in a.xyz] + [exact(a.occupancy)] + [exact(x) for x in sx] + [exact(so)]
        toks += [exact(U[0][0]), exact(U[1][1]), exact(U[2][2]), exact(sU[0][0]), exact(sU[1][1]), exact(sU[2][2])]
        toks += [exact(U[0][1]), exact(U[0][2]), exact(U[1][2]), exact(sU[0][1]), exact(sU[0][2]), exact(sU[1][2])]
    return toks


def view_discus(s):
    d = pdffit_dict(s)
    toks = [s.title, d["spcgr"], exact(d.get("spdiameter", 0.0)), exact(d.get("stepcut", 0.0))]
    toks += [exact(x) for x in s.lattice.abcABG()]
    for a in s:
        toks += [a.element] + [exact(x) for x in a.xyz] + [exact(a.Bisoequiv)]
    return toks


VIEWS = {"xyz": view_xyz, "rawxyz": view_rawxyz, "pdffit": view_pdffit, "discus": view_discus}
RAW_VIEWS = {"pdffit": lambda s: view_pdffit(s, raw=True)}


def _num(tok):
    try:
        return float(tok)
    except ValueError:
        return None


def loose_token(fmt, i):
    """Tokens that the implementation only exposes through a float conversion of what the reader stored
    (discus: Bisoequiv = UtoB * (BtoU * B)): compared to 1e-13 relative instead of exactly."""
    if fmt == "discus":
        return i >= 10 and (i - 10) % 5 == 4
    return False


def tokens_equal(fmt, model_toks, real_toks):
    """Field-for-field comparison of a model answer with the view of the real result.  A numeric model
    token is the exact decimal the reader saw; float() of it must be the very double the implementation holds
    (same sign of zero).  Strings are compared literally."""
    if len(model_toks) != len(real_toks):
        return "token count %d vs %d" % (len(model_toks), len(real_toks))
    for i, (m, r) in enumerate(zip(model_toks, real_toks)):
        if m == r:
            continue
        fm, fr = _num(m), _num(r)
        if fm is None or fr is None:
            return "token %d: model %r, implementation %r" % (i, m, r)
        if loose_token(fmt, i) and abs(fm - fr) <= 1e-13 * max(abs(fm), abs(fr)):
            continue
        if fm != fr or (fm == 0 and str(fm) != str(fr)):
            return "token %d: model %s, implementation %s" % (i, m, r)
    return None
