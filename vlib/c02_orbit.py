"""C02 helpers: exact (fractions.Fraction) orbit oracle, special-position discovery, case generation.

Everything here is independent of the code under test except for reading the live operation
objects (R, t) of `SpaceGroupList`, which are converted to exact integers/fractions.
A *case* is a plain dict of integers:
  {"si": index in SpaceGroupList, "D": grid modulus, "x": [3 ints], "off": [3 ints], "ref": [3 ints],
   "kind": ..., "stratum": ...}        coordinates are k/D;  ref = the site whose exact orbit is expected
"""
from fractions import Fraction as F
from math import gcd
import itertools

import numpy

D0 = 12 * 10 ** 7                 # decimal inputs with 7 digits and all twelfths are exact
EPS_EQ = F(1.0e-5)                # exact value of the double used by equalPositions
EPS_B = F((1.0e-5 + 1.0) - 1.0)   # exact value of the double used by _Position2Tuple
MARGIN = F(1, 10 ** 9)            # decisions closer than this to a threshold are not judged
TOL = 1e-9                        # float vs exact comparison


def eps_ratio(eps):
    """Exact (num, den) of the double passed as eps, None for the default."""
    if eps is None:
        return None
    f = F(float(eps))
    return (f.numerator, f.denominator)


def tolerances(case):
    """(caller's eps, bin width of _Position2Tuple (0 = exact mode), decision margin) as Fractions, for case['eps']
    (None = default).  Cases flagged 'dyadic' are computed without any round-off by the implementation: margin 0."""
    eps = case.get("eps")
    e = 1.0e-5 if eps is None else float(eps)
    b = (e + 1.0) - 1.0
    if b == 0.0 or 1.0 / b > 2 ** 63 - 1:
        b = 0.0
    return F(e), F(b), (F(0) if case.get("dyadic") else MARGIN)


def lcm(a, b):
    return a * b // gcd(a, b)


def exact_ops(sg):
    """[(R as 9 ints, t as 3 Fractions)] of a live SpaceGroup; raises ValueError when not exact."""
    out = []
    for op in sg.symop_list:
        R = numpy.asarray(op.R, dtype=float)
        t = numpy.asarray(op.t, dtype=float)
        Ri = numpy.rint(R)
        if R.shape != (3, 3) or t.shape != (3,) or not numpy.all(numpy.abs(R - Ri) < 1e-12):
            raise ValueError("operation is not an integer rotation")
        tf = []
        for v in t:
            f = F(float(v)).limit_denominator(1000)
            if abs(float(f) - float(v)) > 1e-12:
                raise ValueError("translation %r is not a small rational" % v)
            tf.append(f)
        out.append((tuple(int(v) for v in Ri.flatten()), tuple(tf)))
    return out


def apply(op, v):
    R, t = op
    return tuple(R[3 * i] * v[0] + R[3 * i + 1] * v[1] + R[3 * i + 2] * v[2] + t[i] for i in range(3))


def red(v):
    return tuple(c - (c.numerator // c.denominator) for c in v)


def image(op, off, x):
    """Exact image of the site x in a group whose origin is shifted by off, reduced into [0,1)^3."""
    y = apply(op, tuple(a + b for a, b in zip(x, off)))
    return red(tuple(a - b for a, b in zip(y, off)))


def orbit(ops, off, x):
    """(distinct images in first-seen order, fibres as lists of operation indices, images per operation)."""
    imgs = [image(op, off, x) for op in ops]
    order, fib = [], {}
    for i, p in enumerate(imgs):
        if p not in fib:
            fib[p] = []
            order.append(p)
        fib[p].append(i)
    return order, [fib[p] for p in order], imgs


def stabiliser(ops, off, x):
    r = red(x)
    return [i for i, op in enumerate(ops) if image(op, off, x) == r]


class FastOps(object):
    """Integer (numpy) form of the operations on a grid (default D0) for quick exact stabilisers."""

    def __init__(self, ops, grid=None):
        self.ops = ops
        self.grid = grid or D0
        self.ok = all(self.grid % c.denominator == 0 for _, t in ops for c in t)
        if self.ok:
            self.R = numpy.array([R for R, _ in ops], dtype=numpy.int64).reshape(-1, 3, 3)
            self.t = numpy.array([[int(c * self.grid) for c in t] for _, t in ops], dtype=numpy.int64)

    def stabiliser(self, x):
        """Exact stabiliser of x (unshifted origin)."""
        if not self.ok or any(self.grid % c.denominator for c in x):
            return stabiliser(self.ops, (F(0),) * 3, x)
        k = numpy.array([int(c * self.grid) for c in x], dtype=numpy.int64)
        y = (self.R @ k + self.t - k) % self.grid
        return [int(i) for i in numpy.nonzero(numpy.all(y == 0, axis=1))[0]]


# --- linear algebra over Fractions ------------------------------------------------------------
def solve_affine(A, b):
    """Solutions of A x = b (A 3x3 ints as 9-tuple, b 3 Fractions): (x0, [basis vectors]) or None."""
    M = [[F(A[3 * i + j]) for j in range(3)] + [F(b[i])] for i in range(3)]
    piv = []
    r = 0
    for c in range(3):
        p = next((i for i in range(r, 3) if M[i][c] != 0), None)
        if p is None:
            continue
        M[r], M[p] = M[p], M[r]
        pv = M[r][c]
        M[r] = [v / pv for v in M[r]]
        for i in range(3):
            if i != r and M[i][c] != 0:
                f = M[i][c]
                M[i] = [a - f * b_ for a, b_ in zip(M[i], M[r])]
        piv.append(c)
        r += 1
    for i in range(r, 3):
        if M[i][3] != 0:
            return None
    x0 = [F(0)] * 3
    for k, c in enumerate(piv):
        x0[c] = M[k][3]
    basis = []
    for c in range(3):
        if c in piv:
            continue
        v = [F(0)] * 3
        v[c] = F(1)
        for k, pc in enumerate(piv):
            v[pc] = -M[k][c]
        den = 1
        for q in v:
            den = lcm(den, q.denominator)
        basis.append(tuple(q * den for q in v))
    return tuple(x0), basis


# --- discovery of special positions ----------------------------------------------------------------
def grid_strata(ops, rng, n=24):
    """Stabiliser types realised by the points k/n of the n^3 grid (all zero-dimensional special positions
    of the tabulated settings have coordinates that are multiples of 1/24).  {stab tuple: point}"""
    k = numpy.indices((n, n, n)).reshape(3, -1).astype(numpy.int64)
    sig = numpy.zeros((len(ops), k.shape[1]), dtype=bool)
    for i, (R, t) in enumerate(ops):
        tn = [t[j] * n for j in range(3)]
        if any(v.denominator != 1 for v in tn):
            return {}
        Rm = numpy.array(R, dtype=numpy.int64).reshape(3, 3)
        y = (Rm @ k + numpy.array([int(v) for v in tn], dtype=numpy.int64)[:, None]) % n
        sig[i] = numpy.all(y == k, axis=0)
    packed = numpy.packbits(sig, axis=0).T
    groups = {}
    for col, key in enumerate(map(bytes, packed)):
        groups.setdefault(key, []).append(col)
    out = {}
    for key, cols in groups.items():
        col = cols[rng.randrange(len(cols))]
        st = tuple(int(i) for i in numpy.nonzero(sig[:, col])[0])
        if len(st) > 1:
            out[st] = tuple(F(int(k[j, col]), n) for j in range(3))
    return out


def is_dyadic(q):
    d = q.denominator
    return d & (d - 1) == 0


def dyadic_group(ops):
    """All translations are dyadic: with dyadic sites every image is computed without round-off."""
    return all(is_dyadic(c) for _, t in ops for c in t)


def fixed_set_strata(ops, rng, shifts=(-1, 0, 1), digits=4, dyadic=False):
    """Generic rational points on the fixed-point sets {x | (R-I)x = n - t} of every operation and
    lattice shift n, classified by their exact stabiliser.  {stab tuple: point}"""
    out = {}
    seen = set()
    fast = FastOps(ops, 12 * 2 ** 24 if dyadic else None)
    for R, t in ops[1:]:
        A = tuple(R[j] - (1 if j in (0, 4, 8) else 0) for j in range(9))
        for n in itertools.product(shifts, repeat=3):
            sol = solve_affine(A, tuple(n[j] - t[j] for j in range(3)))
            if sol is None:
                continue
            x0, basis = sol
            if len(basis) == 3:
                continue
            key = (x0, tuple(basis))
            if key in seen:
                continue
            seen.add(key)
            x = list(x0)
            for bvec in basis:
                if dyadic:
                    # 18-bit parameters: the coordinate lies at a random place inside its 1e-5 bin
                    s = F(2 * rng.randrange(13108, 117964) + 1, 2 ** 18)
                else:
                    s = F(rng.randrange(10 ** (digits - 1) + 7, 10 ** digits - 7), 10 ** digits)
                x = [a + s * c for a, c in zip(x, bvec)]
            x = red(tuple(x))
            if dyadic and not all(is_dyadic(c) for c in x):
                continue
            st = tuple(fast.stabiliser(x))
            if len(st) > 1 and st not in out:
                out[st] = x
    return out


def discover(ops, rng):
    """All discovered special-position types of a setting: {stab tuple: representative site}."""
    out = fixed_set_strata(ops, rng)
    for st, p in grid_strata(ops, rng).items():
        out.setdefault(st, p)
    return out


# --- case construction ----------------------------------------------------------------------------
OFFSETS = [(F(1, 4),) * 3, (F(1, 8),) * 3, (F(0), F(1, 4), F(1, 8)), (F(1, 2), F(0), F(1, 4)), (F(1, 8), F(3, 8), F(5, 8)),
           (F(0), F(0), F(1, 4)), (F(-1, 8), F(-1, 8), F(-1, 8)), (F(1, 3), F(2, 3), F(0))]


def rand_offset(rng):
    if rng.random() < 0.6:
        return OFFSETS[rng.randrange(len(OFFSETS))]
    return tuple(F(rng.randrange(-8, 9), 8) for _ in range(3))


def rand_shift(rng):
    while True:
        s = tuple(F(rng.randrange(-3, 4)) for _ in range(3))
        if any(s):
            return s


def rand_general(rng, digits=5):
    return tuple(F(rng.randrange(10 ** (digits - 1) + 3, 10 ** digits - 3), 10 ** digits) for _ in range(3))


def perturb_inside(rng):
    """Displacement with every component between 1e-7 and 4e-6 in magnitude (multiples of 1e-7)."""
    return tuple(F(rng.choice((-1, 1)) * rng.randrange(1, 41), 10 ** 7) for _ in range(3))


def perturb_outside(rng):
    """Displacement (s, 4s, 16s) permuted/signed with 5e-5 <= s < 1.2e-4: every combination with integer
    coefficients in [-2, 2] is at least s in magnitude, so all images separate by more than 2 eps."""
    s = F(rng.randrange(500, 1200), 10 ** 7)
    comps = [s, 4 * s, 16 * s]
    rng.shuffle(comps)
    return tuple(rng.choice((-1, 1)) * c for c in comps)


def make_case(si, kind, x, off, ref, stratum=None, base=None):
    den = base or D0
    for v in tuple(x) + tuple(off) + tuple(ref):
        den = lcm(den, v.denominator)
    return {"si": si, "D": den, "kind": kind, "stratum": stratum,
            "x": [int(v * den) for v in x], "off": [int(v * den) for v in off], "ref": [int(v * den) for v in ref]}


def case_fracs(case):
    Dn = case["D"]
    return (tuple(F(v, Dn) for v in case["x"]), tuple(F(v, Dn) for v in case["off"]), tuple(F(v, Dn) for v in case["ref"]))


def vadd(a, b):
    return tuple(p + q for p, q in zip(a, b))


def vsub(a, b):
    return tuple(p - q for p, q in zip(a, b))


def cases_for_site(si, rng, x0, stratum, variants):
    """Variants of one exactly special (or general) site x0 (given in the unshifted group)."""
    zero = (F(0),) * 3
    out = []
    for v in variants:
        if v == "exact":
            out.append(make_case(si, "exact", x0, zero, x0, stratum))
        elif v == "shift":
            x = vadd(x0, rand_shift(rng))
            out.append(make_case(si, "shift", x, zero, x, stratum))
        elif v == "offset":
            off = rand_offset(rng)
            x = vsub(x0, off)
            out.append(make_case(si, "offset", x, off, x, stratum))
        elif v == "offset+shift":
            off = rand_offset(rng)
            x = vadd(vsub(x0, off), rand_shift(rng))
            out.append(make_case(si, "offset+shift", x, off, x, stratum))
        elif v == "inside":
            out.append(make_case(si, "inside", vadd(x0, perturb_inside(rng)), zero, x0, stratum))
        elif v == "inside+offset":
            off = rand_offset(rng)
            xs = vadd(vsub(x0, off), rand_shift(rng))
            out.append(make_case(si, "inside+offset", vadd(xs, perturb_inside(rng)), off, xs, stratum))
        elif v == "outside":
            x = vadd(x0, perturb_outside(rng))
            out.append(make_case(si, "outside", x, zero, x, stratum))
        else:
            raise ValueError(v)
    return out


def dyadic_disp(rng, bits):
    """Displacement of +-2^-bits in one to three coordinates."""
    while True:
        d = tuple(F(rng.choice((-1, 0, 1)), 2 ** bits) for _ in range(3))
        if any(d):
            return d


def dyadic_offset(rng):
    """Origin offset like 2^-9 + 2^-19: moves positions at 0, 1/2, 1/4 (which sit on bin edges) to mid-bin."""
    return tuple(F(rng.choice((0, 1, 1)) * (2 * rng.randrange(1, 2 ** 11) + 1), 2 ** 19) for _ in range(3))


def eps_cases_for_site(si, rng, x0, stratum, variants):
    """The `eps` argument as an input dimension, on a dyadic site x0 of a group with dyadic translations (the
    implementation then computes every image without round-off: exact comparison, margin 0)."""
    zero = (F(0),) * 3
    out = []

    def mk(kind, eps, x, off, ref):
        c = make_case(si, kind, x, off, ref, stratum, base=12)
        c["eps"] = eps
        c["dyadic"] = True
        out.append(c)
    for v in variants:
        if v == "eps0-exact":
            mk(v, 0.0, x0, zero, x0)
        elif v == "eps0-off":
            x = vadd(x0, dyadic_disp(rng, 22))
            mk(v, 0.0, x, zero, x)
        elif v == "eps0-off+offset":
            off = dyadic_offset(rng)
            x = vadd(vadd(vsub(x0, off), dyadic_disp(rng, 22)), rand_shift(rng) if rng.random() < 0.5 else zero)
            mk(v, 0.0, x, off, x)
        elif v == "eps1e-7-off":
            x = vadd(x0, dyadic_disp(rng, 22))
            mk(v, 1.0e-7, x, zero, x)
        elif v == "eps1e-7-in":
            mk(v, 1.0e-7, vadd(x0, dyadic_disp(rng, 26)), zero, x0)
        elif v == "eps1e-3-in":
            mk(v, 1.0e-3, vadd(x0, dyadic_disp(rng, 13)), zero, x0)
        elif v == "eps1e-3-in+offset":
            off = dyadic_offset(rng)
            xs = vsub(x0, off)
            mk(v, 1.0e-3, vadd(xs, dyadic_disp(rng, 13)), off, xs)
        else:
            raise ValueError(v)
    return out


EPS_VARIANTS = ["eps0-exact", "eps0-off", "eps0-off+offset", "eps1e-7-off", "eps1e-7-in", "eps1e-3-in", "eps1e-3-in+offset"]


# --- exact analysis of a case: expected result + robustness margins ---------------------------------
def pbox(a, b, Dn):
    """Pairwise periodic box distances (grid units) between integer arrays a (n,3) and b (m,3)."""
    d = (a[:, None, :] - b[None, :, :]) % Dn
    d = numpy.minimum(d, Dn - d)
    return d.max(axis=2)


def analyse(ops, case):
    """Expected outcome of the expansion of case['x'] when the orbit structure is that of case['ref'].

    Returns dict: clusters (operation index lists ordered by first operation), expected positions
    (exact image of x under the first operation of each cluster), stab (of ref), judged (bool) and
    why_not, fragile (bool; whether the tolerance algorithm's decisions have margin < 1e-9)."""
    x, off, ref = case_fracs(case)
    Dn = case["D"]
    order, fibres, _ = orbit(ops, off, ref)
    imgs_x = [image(op, off, x) for op in ops]
    exp_pos = [imgs_x[f[0]] for f in fibres]
    stab = stabiliser(ops, off, ref)
    res = {"clusters": fibres, "positions": exp_pos, "stab": stab, "nops": len(ops), "judged": True, "why_not": "",
           "fragile": False, "first": red(x),
           # any image of the input site that belongs to the cluster is an acceptable representative
           "cluster_images": [sorted(set(imgs_x[i] for i in f)) for f in fibres]}
    P = numpy.array([[int(c * Dn) for c in p] for p in imgs_x], dtype=numpy.int64)
    cl = numpy.empty(len(ops), dtype=numpy.int64)
    for j, f in enumerate(fibres):
        cl[f] = j
    bd = pbox(P, P, Dn)
    same = cl[:, None] == cl[None, :]
    EQ, EB, MG = tolerances(case)
    fl = lambda q: q.numerator // q.denominator        # noqa  exact floor of a Fraction
    within = int(bd[same].max()) if same.any() else 0
    between = int(bd[~same].min()) if (~same).any() else None
    # within <= (eps - margin) D   and   between > (max(eps, bin) + margin) D, decided in integers
    if within > fl((EQ - MG) * Dn):
        res["judged"], res["why_not"] = False, "images of one special position spread wider than the tolerance"
    if between is not None and between <= fl((max(EQ, EB) + MG) * Dn):
        res["judged"], res["why_not"] = False, "distinct images closer than the tolerance (margin < 1e-9)"
    # fragility of the model-vs-implementation comparison (float rounding could flip a decision)
    m = float(MG) * Dn
    eq = float(EQ) * Dn
    eb = float(EB) * Dn
    nz = bd > 0
    if nz.any() and MG > 0:
        if (numpy.abs(bd[nz] - eq) < m).any() or (EB > 0 and (numpy.abs(bd[nz] - eb) < m).any()):
            res["fragile"] = True
        close = nz & (bd <= max(eq, eb) + m)
        if close.any():
            rows = numpy.nonzero(close.any(axis=1))[0]
            if EB > 0:
                u = P[rows].astype(float) / Dn / float(EB)
                if (numpy.abs(u - numpy.rint(u)) * float(EB) < float(MG)).any():
                    res["fragile"] = True
            for r in rows:
                dd = numpy.unique(bd[r][close[r]])
                if len(dd) > 1 and (numpy.diff(dd) < m).any():
                    res["fragile"] = True
                # two different points at the same small distance: argmin tie
                pts = {tuple(P[c]) for c in numpy.nonzero(close[r])[0]}
                if len(pts) > len(dd):
                    res["fragile"] = True
    return res


def pdist(p, q):
    """Periodic box distance between a float position and an exact one."""
    d = 0.0
    for a, b in zip(p, q):
        t = (float(a) - float(b)) % 1.0
        d = max(d, min(t, 1.0 - t))
    return d


def judge(expected, positions, oplists, mult, tol=TOL):
    """Clauses of the property text on an (positions, operation index lists, multiplicity) triple.
    Returns [(clause, message)]."""
    bad = []
    pos = [[float(c) for c in p] for p in positions]
    for j, p in enumerate(pos):
        for c in p:
            if not (0.0 <= c < 1.0):
                what = "coordinate-equals-1.0" if c == 1.0 else "coordinate-outside-cell"
                bad.append((what, "position %d = %r is not inside [0,1)^3" % (j, p)))
                break
    n = len(expected["clusters"])
    if mult != len(pos):
        bad.append(("multiplicity", "multiplicity %r but %d positions" % (mult, len(pos))))
    if len(pos) != n:
        bad.append(("orbit-size", "%d positions returned, the exact orbit has %d points" % (len(pos), n)))
    if pos and pdist(pos[0], expected["first"]) > tol:
        bad.append(("input-first", "first position %r is not the input site %r" % (pos[0], [float(c) for c in expected["first"]])))
    # match every returned position with one expected position
    used = {}
    for j, p in enumerate(pos):
        k = next((k for k, qs in enumerate(expected["cluster_images"]) if any(pdist(p, q) <= tol for q in qs)), None)
        if k is None:
            bad.append(("not-an-image", "position %d = %r is not an image of the site" % (j, p)))
        elif k in used:
            bad.append(("duplicate", "positions %d and %d are the same point modulo the lattice" % (used[k], j)))
        else:
            used[k] = j
    for k, q in enumerate(expected["positions"]):
        if k not in used and len(bad) < 8:
            bad.append(("missing-image", "image %r of the site is not returned" % ([float(c) for c in q],)))
    if oplists is not None:
        flat = [i for l in oplists for i in l]
        if sorted(flat) != list(range(expected["nops"])):
            bad.append(("attribution", "operations are not attributed exactly once each: %d entries for %d operations" % (len(flat), expected["nops"])))
        for k, j in used.items():
            if j < len(oplists) and sorted(oplists[j]) != sorted(expected["clusters"][k]):
                bad.append(("attribution", "position %d carries operations %r, the operations generating it are %r" %
                            (j, sorted(oplists[j])[:12], sorted(expected["clusters"][k])[:12])))
                break
    if mult * len(expected["stab"]) != expected["nops"]:
        bad.append(("orbit-stabiliser", "multiplicity %r x %d site-symmetry operations != %d operations" %
                    (mult, len(expected["stab"]), expected["nops"])))
    return bad


def snapped_site(ops, case):
    """Where GeneratorSite must move the site: x_special + mean over the site symmetry of R_h (x - x_special)."""
    x, off, ref = case_fracs(case)
    st = stabiliser(ops, off, ref)
    delta = vsub(x, ref)
    acc = [F(0)] * 3
    for i in st:
        R = ops[i][0]
        for r in range(3):
            acc[r] += R[3 * r] * delta[0] + R[3 * r + 1] * delta[1] + R[3 * r + 2] * delta[2]
    return tuple(ref[r] + acc[r] / len(st) for r in range(3))
