"""A small independent evaluator for the Gallina terms that translate/lattice.py (and friends) generate.

It parses the generated .v text itself (the very file the theorems are about) and evaluates the definitions with
Python floats, the primitives being re-implemented here from their Coq definitions in Base/RMat.v, Base/Trig.v,
Model/LatDefs.v.  Used to validate the translator against the live implementation.
"""
import math
import re

TOK = re.compile(r"\s*(\{\||\|\}|:=|=>|[()|;+\-*/]|[A-Za-z_][A-Za-z_0-9']*|\d+)")


def tokenize(s):
    s = re.sub(r"\(\*.*?\*\)", " ", s, flags=re.S)
    out, i = [], 0
    while i < len(s):
        m = TOK.match(s, i)
        if not m:
            if s[i:].strip() == "":
                break
            raise ValueError("cannot tokenize at: %r" % s[i:i + 40])
        out.append(m.group(1))
        i = m.end()
    return out


class P:
    def __init__(self, toks):
        self.t, self.i = toks, 0

    def peek(self):
        return self.t[self.i] if self.i < len(self.t) else None

    def eat(self, x=None):
        tok = self.t[self.i]
        if x is not None and tok != x:
            raise ValueError("expected %r got %r at %d (%s)" % (x, tok, self.i, " ".join(self.t[max(0, self.i - 8):self.i + 8])))
        self.i += 1
        return tok

    def expr(self):
        t = self.peek()
        if t == "let":
            self.eat()
            name = self.eat()
            self.eat(":=")
            e1 = self.expr()
            self.eat("in")
            return ("let", name, e1, self.expr())
        if t == "match":
            self.eat()
            scrut = self.expr()
            self.eat("with")
            if self.peek() == "|":
                self.eat()
            self.eat("Some")
            v = self.eat()
            self.eat("=>")
            e1 = self.expr()
            self.eat("|")
            self.eat("None")
            self.eat("=>")
            e2 = self.expr()
            self.eat("end")
            return ("match", scrut, v, e1, e2)
        return self.arith()

    def arith(self):
        # left-assoc + - over * / (generated terms are fully parenthesised, hand-written ones may not be)
        l = self.term()
        while self.peek() in ("+", "-"):
            op = self.eat()
            l = ("bin", op, l, self.term())
        return l

    def term(self):
        l = self.app()
        while self.peek() in ("*", "/"):
            op = self.eat()
            l = ("bin", op, l, self.app())
        return l

    def app(self):
        if self.peek() == "-":
            self.eat()
            return ("neg", self.app())
        f = self.atom()
        args = []
        while self.peek() is not None and (self.peek() in ("(", "{|") or re.match(r"[A-Za-z_\d]", self.peek())) \
                and self.peek() not in ("in", "with", "end", "let", "match"):
            args.append(self.atom())
        return ("app", f, args) if args else f

    def atom(self):
        t = self.peek()
        if t == "(":
            self.eat()
            e = self.expr()
            self.eat(")")
            return e
        if t == "{|":
            self.eat()
            fields = {}
            while self.peek() != "|}":
                n = self.eat()
                self.eat(":=")
                fields[n] = self.expr()
                if self.peek() == ";":
                    self.eat()
            self.eat("|}")
            return ("rec", fields)
        if re.match(r"\d+$", t):
            self.eat()
            return ("num", float(t))
        self.eat()
        return ("id", t)


def mat_rows(m):
    return [m[0:3], m[3:6], m[6:9]]


def mmul(a, b):
    return tuple(sum(a[3 * i + k] * b[3 * k + j] for k in range(3)) for i in range(3) for j in range(3))


def mT(a):
    return tuple(a[3 * j + i] for i in range(3) for j in range(3))


def det(a):
    return a[0] * (a[4] * a[8] - a[5] * a[7]) - a[1] * (a[3] * a[8] - a[5] * a[6]) + a[2] * (a[3] * a[7] - a[4] * a[6])


def minv(a):
    d = det(a)
    return ((a[4] * a[8] - a[5] * a[7]) / d, (a[2] * a[7] - a[1] * a[8]) / d, (a[1] * a[5] - a[2] * a[4]) / d,
            (a[5] * a[6] - a[3] * a[8]) / d, (a[0] * a[8] - a[2] * a[6]) / d, (a[2] * a[3] - a[0] * a[5]) / d,
            (a[3] * a[7] - a[4] * a[6]) / d, (a[1] * a[6] - a[0] * a[7]) / d, (a[0] * a[4] - a[1] * a[3]) / d)


def cosd(x):
    return math.cos(x * math.pi / 180)


PRIMS = {
    "M": lambda *a: tuple(a), "V": lambda *a: tuple(a),
    "mmul": mmul, "mT": mT, "det": det, "minv": minv,
    "mscale": lambda k, a: tuple(k * x for x in a), "madd": lambda a, b: tuple(x + y for x, y in zip(a, b)),
    "vmul": lambda v, a: tuple(sum(v[k] * a[3 * k + j] for k in range(3)) for j in range(3)),
    "mvmul": lambda a, v: tuple(sum(a[3 * i + k] * v[k] for k in range(3)) for i in range(3)),
    "vdot": lambda u, v: sum(x * y for x, y in zip(u, v)),
    "vadd": lambda u, v: tuple(x + y for x, y in zip(u, v)), "vsub": lambda u, v: tuple(x - y for x, y in zip(u, v)),
    "vscale": lambda k, u: tuple(k * x for x in u),
    "vhad": lambda u, v: tuple(x * y for x, y in zip(u, v)), "vsum": lambda u: sum(u),
    "row1": lambda a: a[0:3], "row2": lambda a: a[3:6], "row3": lambda a: a[6:9],
    "mrowscale": lambda m, x, y, z: tuple(m[3 * i + j] * (x, y, z)[i] for i in range(3) for j in range(3)),
    "mcoldiv": lambda m, x, y, z: tuple(m[3 * i + j] / (x, y, z)[j] for i in range(3) for j in range(3)),
    "mset11": lambda m, v: (v,) + m[1:], "mset22": lambda m, v: m[:4] + (v,) + m[5:], "mset33": lambda m, v: m[:8] + (v,),
    "cosd": cosd, "sind": lambda x: cosd(90 - x), "sqrt": math.sqrt,
    "acosd": lambda x: math.acos(x) * 180 / math.pi, "Rabs": abs, "Rmax": max, "Rmin": min,
    "Some": lambda v: ("Some", v), "I": (1.0, 0, 0, 0, 1.0, 0, 0, 0, 1.0), "None": None,
    "mtrace": lambda a: a[0] + a[4] + a[8],
}


class Module:
    """Definitions parsed from a generated .v file."""

    def __init__(self, text, extra=None):
        self.defs = {}
        self.prims = dict(PRIMS)
        if extra:
            self.prims.update(extra)
        for m in re.finditer(r"Definition\s+([\w']+)((?:\s*\([^()]*\))*)\s*(?::\s*[^:=]+?)?\s*:=(.*?)\.\s*(?=\n\s*\n|\nDefinition|\n\(\*|\Z)", text, re.S):
            name, params, body = m.group(1), m.group(2), m.group(3)
            if "Prop" in (m.group(0).split(":=")[0]) or "\\/" in body or "list" in m.group(0).split(":=")[0]:
                continue
            ps = []
            for grp in re.findall(r"\(([^()]*)\)", params):
                names = grp.split(":")[0].split()
                ps += names
            try:
                self.defs[name] = (ps, P(tokenize(body)).expr())
            except ValueError as e:
                self.defs[name] = (ps, ("error", str(e)))

    def call(self, name, *args):
        ps, body = self.defs[name]
        if body[0] == "error":
            raise ValueError("definition %s did not parse: %s" % (name, body[1]))
        if len(ps) != len(args):
            raise ValueError("%s expects %d arguments" % (name, len(ps)))
        return self.ev(body, dict(zip(ps, args)))

    def ev(self, e, env):
        k = e[0]
        if k == "num":
            return e[1]
        if k == "id":
            n = e[1]
            if n in env:
                return env[n]
            if n in self.defs and not self.defs[n][0]:
                return self.ev(self.defs[n][1], {})
            if n in self.prims:
                return self.prims[n]
            raise ValueError("unbound identifier " + n)
        if k == "neg":
            return -self.ev(e[1], env)
        if k == "bin":
            l, r = self.ev(e[2], env), self.ev(e[3], env)
            return {"+": l + r, "-": l - r, "*": l * r}[e[1]] if e[1] != "/" else l / r
        if k == "let":
            env2 = dict(env)
            env2[e[1]] = self.ev(e[2], env)
            return self.ev(e[3], env2)
        if k == "match":
            s = self.ev(e[1], env)
            if s is None:
                return self.ev(e[4], env)
            env2 = dict(env)
            env2[e[2]] = s[1]
            return self.ev(e[3], env2)
        if k == "rec":
            return {n: self.ev(v, env) for n, v in e[1].items()}
        if k == "app":
            f = e[1]
            args = [self.ev(a, env) for a in e[2]]
            if f[0] == "id":
                n = f[1]
                if n in env and callable(env[n]):
                    return env[n](*args)
                if n in self.defs:
                    return self.call(n, *args)
                if n.startswith("l_") and len(args) == 1 and isinstance(args[0], dict):
                    return args[0][n]
                if n in self.prims:
                    return self.prims[n](*args)
            raise ValueError("cannot apply %r" % (f,))
        raise ValueError("bad node %r" % (k,))
