"""C17 dynamic audit (child process): run parser calls on given texts under `sys.addaudithook` and
`sys.setprofile`, record every interesting audit event with the frame that triggered it, every
in-package call edge (nearest in-package caller -> in-package callee), and snapshots of
sys.modules / cwd / scratch directory / environment / class dictionaries before and after each case.

stdin : {"src": ".../src", "scratch": dir, "cases": [{"id", "fmt", "text", "mode", "out"?}]}
        mode: parse | parseLines | file | read | readStr | load | write (parse then writeStr(out)) |
              twice (parse, edit the returned arrays in place, parse again with a fresh parser, compare)
stdout: {"cases": [{"id", "outcome", "events": [...], "edges": [[caller, callee], ...], "diff": {...}}]}
Frames are reported as "module.dotted:qualname"; the parent maps them to nodes of the static graph.
"""
import json
import os
import sys
import types

WATCH = ("compile", "exec", "import", "open", "os.", "subprocess.", "socket.", "shutil.", "ctypes.", "urllib.",
         "http.", "ftplib.", "smtplib.", "pickle.", "marshal.", "code.", "builtins.input", "builtins.breakpoint",
         "cpython.run_", "pty.", "webbrowser.", "tempfile.", "glob.", "sqlite3.", "mmap.", "fcntl.", "signal.", "resource.",
         "sys.addaudithook", "sys.setprofile", "sys.settrace", "setopencodehook", "sys.excepthook", "sys.unraisablehook",
         "winreg.", "msvcrt.", "syslog.", "poplib.", "imaplib.", "nntplib.", "telnetlib.")

state = {"rec": False, "events": [], "edges": set(), "src": "", "busy": False}


def frame_id(fr):
    fn = fr.f_code.co_filename
    src = state["src"]
    if fn.startswith(src):
        rel = fn[len(src):].lstrip(os.sep)[:-3].replace(os.sep, ".")
        if rel.endswith(".__init__"):
            rel = rel[:-9]
        return "pkg", rel + ":" + fr.f_code.co_qualname
    if fn.startswith("<") and not fn.startswith("<frozen "):
        return "synthetic", fn
    return "lib", fn


def summarise(a):
    try:
        if hasattr(a, "co_filename"):
            return "code:" + a.co_filename
        if isinstance(a, (bytes, bytearray)):
            return "bytes:" + repr(bytes(a[:120]))
        if isinstance(a, (str, int, float, type(None))):
            return a if not isinstance(a, str) else a[:300]
        return type(a).__name__ + ":" + repr(a)[:200]
    except Exception:
        return "?"


def hook(event, args):
    if not state["rec"] or state["busy"]:
        return
    if not event.startswith(WATCH):
        return
    state["busy"] = True
    try:
        fr = sys._getframe(1)
        trig = None
        pkg = None
        synthetic = None
        in_import = False
        depth = 0
        while fr is not None and depth < 400:
            kind, ident = frame_id(fr)
            if fr.f_code is run_case.__code__:
                break
            if fr.f_code.co_filename == "<frozen importlib._bootstrap>" and pkg is None and synthetic is None and trig is not None:
                in_import = True
            if trig is None:
                trig = (kind, ident)
            if kind == "synthetic" and synthetic is None and pkg is None:
                synthetic = ident
            if kind == "pkg" and pkg is None:
                pkg = ident
            fr = fr.f_back
            depth += 1
        state["events"].append({"event": event, "args": [summarise(a) for a in args][:4], "trigger": list(trig or ("none", "")),
                                "pkg": pkg, "synthetic": synthetic, "in_import": in_import})
    finally:
        state["busy"] = False


def profiler(frame, event, arg):
    if event != "call":
        return
    fn = frame.f_code.co_filename
    if not fn.startswith(state["src"]):
        return
    callee = frame_id(frame)[1]
    fr = frame.f_back
    caller = None
    depth = 0
    while fr is not None and depth < 400:
        if fr.f_code is run_case.__code__:
            break
        if fr.f_code.co_filename.startswith(state["src"]):
            caller = frame_id(fr)[1]
            break
        fr = fr.f_back
        depth += 1
    state["edges"].add((caller or "ENTRY", callee))


def listing(d):
    out = []
    for root, dirs, files in os.walk(d):
        for n in sorted(dirs) + sorted(files):
            p = os.path.join(root, n)
            try:
                st = os.lstat(p)
                out.append((os.path.relpath(p, d), st.st_size, int(st.st_mtime_ns)))
            except OSError:
                out.append((os.path.relpath(p, d), -1, -1))
    return sorted(out)


def class_state():
    import diffpy.structure as ds
    out = {}
    objs = [ds.Atom, ds.Structure, ds.Lattice, ds.PDFFitStructure]
    for name in list(sys.modules):
        if name.startswith("diffpy.structure.parsers.p_"):
            m = sys.modules[name]
            objs += [v for v in vars(m).values() if isinstance(v, type) and v.__module__ == name]
    for c in objs:
        out[c.__module__ + "." + c.__name__] = sorted((k, id(v)) for k, v in vars(c).items())
        # contents of class-level containers (dispatch tables, registries): they must not grow or change because of a text
        for k, v in vars(c).items():
            if isinstance(v, (dict, list, set, frozenset, tuple)):
                try:
                    out[c.__module__ + "." + c.__name__ + "." + k + "#content"] = repr(sorted(map(repr, v)))[:20000]
                except Exception:   # noqa
                    pass
    return out


def module_state():
    """Identity of every module-level binding of the library and of PyCifRW (hooks, caches, monkey-patches)."""
    out = {}
    for name in list(sys.modules):
        if name.startswith(("diffpy.structure", "CifFile")):
            m = sys.modules[name]
            try:
                # functions, classes and modules only: the parser generators of PyCifRW keep scratch DATA at module
                # level (e.g. YappsStarParser_*.lastval), which is not an effect of interest; a replaced hook is
                import types
                out[name] = {k: id(v) for k, v in vars(m).items()
                             if not k.startswith("__") and (callable(v) or isinstance(v, types.ModuleType))}
            except Exception:   # noqa
                pass
    return out


def pkg_modules():
    return [m for n, m in list(sys.modules.items()) if n.startswith("diffpy.structure") and m is not None]


def memo_tables():
    """package callables that carry a functools cache: name -> current size"""
    out = {}
    for m in pkg_modules():
        for k, v in list(vars(m).items()):
            objs = [(k, v)]
            if isinstance(v, type) and getattr(v, "__module__", "") == m.__name__:
                objs += [(k + "." + kk, vv) for kk, vv in list(vars(v).items())]
            for name, o in objs:
                o = getattr(o, "__func__", o)
                ci = getattr(o, "cache_info", None)
                if callable(ci):
                    try:
                        out[m.__name__ + ":" + name] = ci().currsize
                    except Exception:   # noqa
                        out[m.__name__ + ":" + name] = -1
    return out


def walk(root, limit=60000):
    """mutable objects reachable through containers, numpy arrays and instances of package classes: [(path, obj)]"""
    import numpy
    seen, out, stack = set(), [], [("", root, 0)]
    while stack and len(out) < limit:
        path, o, d = stack.pop()
        if id(o) in seen or d > 12:
            continue
        seen.add(id(o))
        if isinstance(o, numpy.ndarray):
            out.append((path, o))
            continue
        if isinstance(o, (str, bytes, int, float, complex, bool, type(None), type, type(sys), types.FunctionType,
                          types.BuiltinFunctionType, types.MethodType, types.CodeType)):
            continue
        if isinstance(o, dict):
            out.append((path, o))
            for k, v in list(o.items()):
                stack.append(("%s[%r]" % (path, k) if isinstance(k, (str, int)) else path + "[?]", v, d + 1))
        elif isinstance(o, (list, tuple, set, frozenset)):
            if not isinstance(o, (tuple, frozenset)):
                out.append((path, o))
            for i, v in enumerate(list(o)):
                stack.append(("%s[%d]" % (path, i), v, d + 1))
        if type(o).__module__.startswith("diffpy.structure") and hasattr(o, "__dict__"):
            out.append((path, o))
            for k, v in list(vars(o).items()):
                if k in ("ciffile",):
                    continue
                stack.append((path + "." + k, v, d + 1))
    return out


def canon(o, seen=None, d=0):
    import numpy
    seen = seen if seen is not None else set()
    if isinstance(o, numpy.ndarray):
        return ["nd", list(o.shape), [repr(x) for x in o.ravel().tolist()][:400]]
    if isinstance(o, float):
        return repr(o)
    if isinstance(o, (str, int, bool, type(None))):
        return o
    if id(o) in seen or d > 12:
        return "<seen>"
    seen.add(id(o))
    if isinstance(o, dict):
        return {"dict": sorted(([repr(k), canon(v, seen, d + 1)] for k, v in o.items()), key=lambda kv: kv[0])}
    if type(o).__module__.startswith("diffpy.structure") and hasattr(o, "__dict__"):
        body = {k: canon(v, seen, d + 1) for k, v in sorted(vars(o).items()) if k not in ("ciffile",)}
        if isinstance(o, list):
            body["<items>"] = [canon(v, seen, d + 1) for v in o]
        return {"cls": type(o).__name__, "fields": body}
    if isinstance(o, (list, tuple)):
        return [type(o).__name__] + [canon(v, seen, d + 1) for v in o]
    return "<%s>" % type(o).__name__


def first_diff(a, b, path=""):
    if type(a) is not type(b):
        return path + ": %r vs %r" % (str(a)[:60], str(b)[:60])
    if isinstance(a, dict):
        for k in sorted(set(a) | set(b)):
            if k not in a or k not in b:
                return path + "." + str(k) + ": only in one"
            r = first_diff(a[k], b[k], path + "." + str(k))
            if r:
                return r
        return None
    if isinstance(a, list):
        if len(a) != len(b):
            return path + ": length %d vs %d" % (len(a), len(b))
        for i, (x, y) in enumerate(zip(a, b)):
            r = first_diff(x, y, "%s[%d]" % (path, i))
            if r:
                return r
        return None
    return None if a == b else path + ": %r vs %r" % (str(a)[:60], str(b)[:60])


def twice(fmt, text):
    """parse, edit every returned mutable array in place, parse the same text again with a fresh parser:
    the second result must equal the first and share no text-derived mutable object with it"""
    import numpy
    from diffpy.structure.parsers import getParser
    # program constants (module-level data of the package as it is right after import, e.g. the predefined
    # SpaceGroup objects) may be shared; anything that entered module-level state later may not
    const_ids = state["const_ids"]
    p1 = getParser(fmt)
    s1 = p1.parse(text)
    root1 = {"stru": s1, "parser": p1}
    snap1 = canon(root1)
    g1 = [(pth, o) for pth, o in walk(root1) if id(o) not in const_ids]
    ids1 = {id(o): pth for pth, o in g1}
    edited = 0
    for pth, o in g1:
        if isinstance(o, numpy.ndarray) and o.flags.writeable and o.dtype.kind in "fiu" and o.size:
            try:
                o += (0.3717 if o.dtype.kind == "f" else 1)
                edited += 1
            except Exception:   # noqa
                pass
    p2 = getParser(fmt)
    try:
        s2 = p2.parse(text)
    except Exception as e:   # noqa: the first parse of the very same text succeeded
        return {"same": False, "diff": "the second parse raised %s: %s" % (type(e).__name__, str(e)[:120]), "shared": [],
                "edited": edited, "objects": len(g1)}, s1
    root2 = {"stru": s2, "parser": p2}
    snap2 = canon(root2)
    shared = ["%s is first%s" % (pth, ids1[id(o)]) for pth, o in walk(root2) if id(o) in ids1 and id(o) not in const_ids]
    return {"same": snap1 == snap2, "diff": None if snap1 == snap2 else first_diff(snap1, snap2), "shared": shared[:6],
            "edited": edited, "objects": len(g1)}, s2


def run_case(c, scratch):
    import diffpy.structure as ds
    from diffpy.structure.parsers import getParser
    fmt, text, mode = c["fmt"], c["text"], c["mode"]
    path = None
    if mode in ("file", "read", "load"):
        path = os.path.join(scratch, "in", "case_%s.%s" % (c["id"], c.get("ext", "dat")))
        with open(path, "w", encoding="utf-8", errors="surrogateescape", newline="") as f:
            f.write(text)
    before = {"modules": set(sys.modules), "cwd_list": listing(os.getcwd()), "scratch": listing(scratch), "env": dict(os.environ),
              "cwd": os.getcwd(), "classes": class_state(), "path": list(sys.path), "meta": len(sys.meta_path), "modstate": module_state(),
              "memo": memo_tables()}
    state["events"], state["edges"] = [], set()
    outcome, detail, stru, tw = "ok", "", None, None
    sys.setprofile(profiler)
    state["rec"] = True
    try:
        if mode == "parse":
            stru = getParser(fmt).parse(text)
        elif mode == "parseLines":
            stru = getParser(fmt).parseLines(text.split("\n"))
        elif mode == "file":
            stru = getParser(fmt).parseFile(path)
        elif mode == "read":
            stru = ds.Structure()
            stru.read(path, fmt)
        elif mode == "readStr":
            stru = ds.Structure()
            stru.readStr(text, fmt)
        elif mode == "load":
            stru = ds.loadStructure(path, fmt)
        elif mode == "twice":
            tw, stru = twice(fmt, text)
        elif mode == "write":
            stru = ds.Structure()
            stru.readStr(text, fmt)
            stru.writeStr(c["out"])
        else:
            outcome = "bad-mode"
    except BaseException as e:   # noqa: the exception kind is an observation
        outcome, detail = type(e).__name__, str(e)[:200]
    finally:
        state["rec"] = False
        sys.setprofile(None)
    probe = None
    if stru is not None and c.get("probe_atoms"):
        try:
            import numpy
            probe = [[type(a.xyz).__name__, type(a.lattice).__name__, type(a.element).__name__,
                      isinstance(a.xyz, numpy.ndarray), type(a).__name__] for a in list(stru)[:3]]
        except BaseException as e:   # noqa
            probe = "probe failed: %s" % type(e).__name__
    after_classes = class_state()
    after_mod = module_state()
    mod_changed = sorted("%s.%s" % (m, k) for m, d0 in before["modstate"].items() for k, v in d0.items()
                         if after_mod.get(m, {}).get(k, v) != v)
    diff = {
        "new_modules": sorted(set(sys.modules) - before["modules"]),
        "cwd_changed": listing(os.getcwd()) != before["cwd_list"] or os.getcwd() != before["cwd"],
        "scratch_changed": [x[0] for x in set(listing(scratch)) ^ set(before["scratch"])][:10],
        "env_changed": dict(os.environ) != before["env"],
        "classes_changed": sorted(k for k in before["classes"] if before["classes"][k] != after_classes.get(k)),
        "sys_path_changed": list(sys.path) != before["path"] or len(sys.meta_path) != before["meta"],
        "module_attrs_changed": mod_changed[:8],
    }
    memo = memo_tables()
    diff["memo_grew"] = sorted("%s %s->%s" % (k, before["memo"].get(k, 0), v) for k, v in memo.items()
                               if v != before["memo"].get(k, 0))[:6]
    return {"id": c["id"], "outcome": outcome, "detail": detail, "events": state["events"], "edges": sorted(state["edges"]),
            "diff": diff, "path": path, "probe": probe, "twice": tw}


def main():
    spec = json.load(sys.stdin)
    state["src"] = spec["src"].rstrip(os.sep) + os.sep
    scratch = spec["scratch"]
    os.makedirs(os.path.join(scratch, "in"), exist_ok=True)
    os.makedirs(os.path.join(scratch, "cwd"), exist_ok=True)
    os.chdir(os.path.join(scratch, "cwd"))
    result_path = spec["result"]
    assert os.path.isabs(result_path)
    # pristine program constants: import everything a parse can import, then remember what module-level data holds
    import diffpy.structure.spacegroups     # noqa
    import diffpy.structure.symmetryutilities     # noqa
    from diffpy.structure.parsers import getParser, inputFormats
    for f in inputFormats():
        getParser(f)
    const_ids = set()
    for m in pkg_modules():
        for _, o in walk(vars(m), limit=2000000):
            const_ids.add(id(o))
    state["const_ids"] = const_ids
    sys.addaudithook(hook)
    out = []
    for c in spec["cases"]:
        try:
            out.append(run_case(c, scratch))
        except BaseException as e:   # noqa
            state["rec"] = False
            sys.setprofile(None)
            out.append({"id": c["id"], "outcome": "harness-error", "detail": "%s: %s" % (type(e).__name__, e), "events": [],
                        "edges": [], "diff": {}, "path": None, "probe": None})
    # parsers and libraries may print to stdout: the result goes to a file
    with open(spec["result"], "w") as f:
        json.dump({"cases": out}, f)


if __name__ == "__main__":
    main()
