"""C08 harness pieces: operation language, executor on the real Structure objects, the
plain-list/identity oracle (finder), the random generator, and the reader of the model driver output.

An operation is a tuple (name, args...) printed as "Name int int ..." ("N" = None) -- the same text
the OCaml driver of the extracted Coq model (ocaml/C08/c08_driver) parses.  Handles index the list of
live objects in creation order; atoms are always named as (object handle, index)."""
import copy as copymod
import pickle
import re
import signal

import numpy

MAXLEN = 14          # the generator keeps containers below this size
ALARM_S = 2.0        # wall-clock bound that maps a call to the outcome "div"


ELEMENTS = ["C", "Na", "Cl", "O", "Fe", "Ni", "Si", "Ti"]
COLS = ["element", "label", "xyz", "occupancy"]


def label_str(t):
    """label tag -> string: t >= 0 -> 'L<t>'; -(1000 e + n) -> '<symbol e><n>' (what assignUniqueLabels writes)"""
    if t >= 0:
        return "L%d" % t
    e, n = divmod(-t, 1000)
    return "%s%d" % (ELEMENTS[e], n) if 0 <= e < len(ELEMENTS) else "?%d" % t


def label_tag(lab):
    lab = str(lab)
    m = re.match(r"^L(\d+)$", lab)
    if m:
        return int(m.group(1))
    m = re.match(r"^([A-Z][a-z]?)(\d+)$", lab)
    if m and m.group(1) in ELEMENTS:
        return -(1000 * ELEMENTS.index(m.group(1)) + int(m.group(2)))
    return -999999


def xyz_vec(x):
    return [x * 0.125, 0.25, 0.5]


def decode(a):
    """payload tuple (element, label, xyz, occupancy tags) of a real Atom"""
    el = str(a.element)
    e = ELEMENTS.index(el) if el in ELEMENTS else -999999
    return (e, label_tag(a.label), int(round(float(a.xyz[0]) / 0.125)), int(round(float(a.occupancy) * 8)))


class Diverged(BaseException):
    pass


def _alarm(signum, frame):
    raise Diverged()


# ------------------------------------------------------------------ text form

def _tok(x):
    if x is None:
        return "N"
    if x is True:
        return "1"
    if x is False:
        return "0"
    return str(int(x))


def op_text(op):
    name = op[0]
    a = op[1:]
    if name == "NewList":
        return "NewList %d %s" % (len(a[0]), " ".join(" ".join(map(_tok, p)) for p in a[0]))
    if name == "SetCol":
        return "SetCol %d %d %d %s" % (a[0], a[1], len(a[2]), " ".join(map(_tok, a[2])))
    if name == "ListOf":
        return "ListOf %d %s" % (len(a[0]), " ".join("%d %d" % r for r in a[0]))
    if name == "GetIdx":
        h, tup, items = a
        return "GetIdx %d %d %d %s" % (h, int(tup), len(items), " ".join("%d %d" % (k, v) for k, v in items))
    if name == "GetMask":
        return "GetMask %d %d %s" % (a[0], len(a[1]), " ".join(_tok(bool(b)) for b in a[1]))
    flat = []
    for x in a:
        if isinstance(x, tuple):
            flat += list(x)
        else:
            flat.append(x)
    return (name + " " + " ".join(_tok(x) for x in flat)).strip()


def seq_text(ops):
    return " ; ".join(op_text(o) for o in ops)


def op_from_json(o):
    """ops are stored in JSON as lists; restore the tuple shapes."""
    def tup(x):
        return tuple(tup(y) for y in x) if isinstance(x, list) else x
    name = o[0]
    if name in ("NewList",):
        return (name, [tuple(p) for p in o[1]])
    if name == "SetCol":
        return (name, o[1], o[2], list(o[3]))
    if name == "AddNewAtom":
        return (name, o[1], tuple(o[2]))
    if name == "ListOf":
        return (name, [tuple(r) for r in o[1]])
    if name == "GetIdx":
        return (name, o[1], o[2], [tuple(r) for r in o[3]])
    if name == "GetMask":
        return (name, o[1], list(o[2]))
    return tup(o)


# ------------------------------------------------------------------ executor on the real objects

# every lattice the harness creates has the default cell (like the Lattice() that Structure() makes): C08 is
# about lattice OBJECT identity, and with equal cells placeInLattice leaves the xyz payload unchanged (its
# coordinate transformation is C14's subject)
LAT_ARGS = [(1.0, 1.0, 1.0, 90, 90, 90)]


class Real:
    """Runs operations on real Structure objects; keeps every object alive so that id() is stable."""

    def __init__(self):
        from diffpy.structure import Atom, Lattice, PDFFitStructure, Structure
        self.Atom, self.Lattice, self.Structure, self.PDFFitStructure = Atom, Lattice, Structure, PDFFitStructure
        self.objs = []
        self.graveyard = []     # results and temporaries are kept alive: no id() reuse within a sequence
        self.nlat = 0

    # -- helpers
    def new_lattice(self):
        self.nlat += 1
        L = self.Lattice(*LAT_ARGS[self.nlat % len(LAT_ARGS)])
        self.graveyard.append(L)
        return L

    def is_struct(self, h):
        return 0 <= h < len(self.objs) and isinstance(self.objs[h], self.Structure)

    def valid(self, h):
        return 0 <= h < len(self.objs)

    def atom(self, ref):
        o, i = ref
        if not self.valid(o):
            raise IndexError("no such object")
        return list.__getitem__(self.objs[o], i)

    def new_atom(self, pay):
        e, l, x, o = pay
        return self.Atom(ELEMENTS[e], xyz=xyz_vec(x), label=label_str(l), occupancy=o / 8.0)

    def latarg(self, k):
        if k == -2:
            return self.new_lattice()
        return self.objs[k].lattice

    def handle_of(self, x):
        for i, o in enumerate(self.objs):
            if o is x:
                return i
        self.objs.append(x)
        return len(self.objs) - 1

    # -- one step: returns outcome tuple ("done", kind, value) | ("raise", name) | ("div",)
    def step(self, op):
        name = op[0]
        try:
            signal.signal(signal.SIGALRM, _alarm)
            signal.setitimer(signal.ITIMER_REAL, ALARM_S)
            try:
                r = getattr(self, "op_" + name)(*op[1:])
            finally:
                signal.setitimer(signal.ITIMER_REAL, 0)
        except Diverged:
            return ("div",)
        except _Bad:
            return ("raise", "BadObj")
        except (IndexError, ValueError, TypeError) as e:
            for k in (IndexError, ValueError, TypeError):
                if isinstance(e, k):
                    return ("raise", k.__name__)
        except Exception as e:          # anything else is reported by its class name
            return ("raise", type(e).__name__)
        if r is None:
            return ("done", "none", None)
        if isinstance(r, Vals):
            return ("done", "vals", tuple(r))
        if isinstance(r, self.Atom):
            self.graveyard.append(r)
            return ("done", "atom", id(r))
        return ("done", "obj", self.handle_of(r))

    def need_struct(self, *hs):
        for h in hs:
            if not self.is_struct(h):
                raise _Bad()

    def need_obj(self, *hs):
        for h in hs:
            if not self.valid(h):
                raise _Bad()

    # -- operations
    def op_NewStruct(self):
        cls = self.PDFFitStructure if len(self.objs) % 2 == 1 else self.Structure
        return cls()

    def op_NewList(self, tags):
        return [self.new_atom(t) for t in tags]

    def op_ListOf(self, refs):
        return [self.atom(r) for r in refs]

    def op_AddNewAtom(self, h, t):
        self.need_struct(h)
        e, l, x, o = t
        self.objs[h].addNewAtom(ELEMENTS[e], xyz=xyz_vec(x), label=label_str(l), occupancy=o / 8.0)

    def op_Construct(self, s, la):
        self.need_obj(s)
        if la == -1:
            return self.Structure(self.objs[s])
        if la >= 0:
            self.need_struct(la)
        return self.Structure(self.objs[s], lattice=self.latarg(la))

    def op_Append(self, h, ref, copy):
        self.need_struct(h)
        a = self.atom(ref)
        if copy and ref[1] % 2:
            self.objs[h].append(a)
        else:
            self.objs[h].append(a, copy=bool(copy))

    def op_Insert(self, h, i, ref, copy):
        self.need_struct(h)
        a = self.atom(ref)
        if copy and i % 2:
            self.objs[h].insert(i, a)
        else:
            self.objs[h].insert(i, a, copy=bool(copy))

    def op_Extend(self, h, s, copy):
        self.need_struct(h)
        self.need_obj(s)
        if copy == 0:
            self.objs[h].extend(self.objs[s])
        else:
            self.objs[h].extend(self.objs[s], copy=(copy == 1))

    def op_GetInt(self, h, i):
        self.need_struct(h)
        return self.objs[h][numpy.int64(i) if i % 3 == 0 else i]

    def op_GetSlice(self, h, sl):
        self.need_struct(h)
        return self.objs[h][slice(*sl)]

    def op_GetIdx(self, h, tup, items):
        self.need_struct(h)
        idx = [label_str(v) if k else v for k, v in items]
        allint = all(k == 0 for k, _ in items)
        if tup:
            idx = tuple(idx)
        elif allint and idx and sum(idx) % 2 == 0:
            idx = numpy.array(idx, dtype=int)
        return self.objs[h][idx]

    def op_GetMask(self, h, m):
        self.need_struct(h)
        mm = [bool(b) for b in m]
        if not mm or sum(mm) % 2 == 0:
            mm = numpy.array(mm, dtype=bool)
        return self.objs[h][mm]

    def op_GetLabel(self, h, t):
        self.need_struct(h)
        return self.objs[h][label_str(t)]

    def op_SetInt(self, h, i, ref, copy):
        self.need_struct(h)
        a = self.atom(ref)
        if copy:
            self.objs[h][i] = a
        else:
            self.objs[h].__setitem__(i, a, copy=False)

    def op_SetSlice(self, h, sl, v, copy):
        self.need_struct(h)
        self.need_obj(v)
        if copy:
            self.objs[h][slice(*sl)] = self.objs[v]
        else:
            self.objs[h].__setitem__(slice(*sl), self.objs[v], copy=False)

    def op_DelInt(self, h, i):
        self.need_struct(h)
        del self.objs[h][i]

    def op_DelSlice(self, h, sl):
        self.need_struct(h)
        del self.objs[h][slice(*sl)]

    def op_Pop(self, h, i):
        self.need_struct(h)
        return self.objs[h].pop() if i is None else self.objs[h].pop(i)

    def op_Remove(self, h, ref):
        self.need_struct(h)
        a = self.atom(ref)
        self.objs[h].remove(a)

    def op_Reverse(self, h):
        self.need_struct(h)
        self.objs[h].reverse()

    def op_Clear(self, h):
        self.need_struct(h)
        if len(self.objs[h]) % 2:
            self.objs[h].clear()
        else:
            del self.objs[h][:]

    def op_Add(self, h, s):
        self.need_struct(h)
        self.need_obj(s)
        return self.objs[h] + self.objs[s]

    def op_Sub(self, h, s):
        self.need_struct(h)
        self.need_obj(s)
        return self.objs[h] - self.objs[s]

    def op_Mul(self, h, n):
        self.need_struct(h)
        return self.objs[h] * n if n % 2 else n * self.objs[h]

    def op_IAdd(self, h, s):
        self.need_struct(h)
        self.need_obj(s)
        x = self.objs[h]
        x += self.objs[s]
        return x

    def op_ISub(self, h, s):
        self.need_struct(h)
        self.need_obj(s)
        x = self.objs[h]
        x -= self.objs[s]
        return x

    def op_IMul(self, h, n):
        self.need_struct(h)
        x = self.objs[h]
        x *= n
        return x

    def op_Copy(self, h):
        self.need_struct(h)
        return self.objs[h].copy() if h % 2 else copymod.copy(self.objs[h])

    def op_CopyInto(self, h, t):
        self.need_struct(h, t)
        return self.Structure.__copy__(self.objs[h], self.objs[t])

    def op_SetLattice(self, h, la, place):
        self.need_struct(h)
        if la >= 0:
            self.need_struct(la)
        L = self.latarg(la)
        if place:
            self.objs[h].placeInLattice(L)
        else:
            self.objs[h].lattice = L

    def op_Pickle(self, h, hi):
        self.need_struct(h)
        proto = (2 + len(self.objs) % 4) if hi else len(self.objs) % 2
        return pickle.loads(pickle.dumps(self.objs[h], proto))

    def op_DeepCopy(self, h):
        self.need_struct(h)
        return copymod.deepcopy(self.objs[h])

    def op_Tolist(self, h):
        self.need_struct(h)
        return self.objs[h].tolist() if h % 2 else list(self.objs[h])

    def op_SetCol(self, h, col, tags):
        self.need_struct(h)
        conv = [lambda v: ELEMENTS[v], label_str, xyz_vec, lambda v: v / 8.0][col]
        vals = [conv(t) for t in tags]
        if len(vals) == 1 and tags[0] % 2 and col != 2:
            setattr(self.objs[h], COLS[col], vals[0])          # scalar form
        elif col == 2 and len(vals) == 1 and tags[0] % 2:
            setattr(self.objs[h], "xyz", vals[0])              # one row, broadcast
        else:
            setattr(self.objs[h], COLS[col], vals)

    def op_Sort(self, h, key, rev):
        self.need_struct(h)
        kw = {}
        if key >= 0:
            kw["key"] = lambda a: decode(a)[key]
        if rev or h % 2:
            kw["reverse"] = bool(rev)
        self.objs[h].sort(**kw)

    def op_AssignUniqueLabels(self, h):
        self.need_struct(h)
        self.objs[h].assignUniqueLabels()

    def op_GetLast(self, h):
        self.need_struct(h)
        return self.objs[h].getLastAtom()

    def op_GetCol(self, h, col):
        self.need_struct(h)
        arr = getattr(self.objs[h], COLS[col])
        if col == 0:
            return Vals([ELEMENTS.index(str(x)) if str(x) in ELEMENTS else -999999 for x in arr])
        if col == 1:
            return Vals([label_tag(x) for x in arr])
        if col == 2:
            arr = numpy.asarray(arr, dtype=float).reshape(-1, 3)
            return Vals([int(round(r[0] / 0.125)) for r in arr])
        return Vals([int(round(float(x) * 8)) for x in arr])

    def op_Composition(self, h):
        self.need_struct(h)
        out = []
        for el, occ in self.objs[h].composition.items():
            out += [ELEMENTS.index(str(el)) if str(el) in ELEMENTS else -999999, int(round(float(occ) * 8))]
        return Vals(out)

    # -- observation
    def snapshot(self, outcome):
        """(outcome, objects, atoms) with raw identities; see canon()."""
        objs = []
        atoms = {}
        for o in self.objs:
            if isinstance(o, self.Structure):
                objs.append(("S", id(o.lattice) if o.lattice is not None else None, [id(a) for a in list.__iter__(o)]))
            else:
                objs.append(("L", None, [id(a) for a in o]))
            for a in list.__iter__(o):
                if id(a) not in atoms:
                    atoms[id(a)] = (decode(a), id(a.lattice) if a.lattice is not None else None)
        return (outcome, objs, atoms)


class _Bad(Exception):
    pass


class Vals(list):
    """a list of integer tags returned by a column read / composition"""


def canon(snap):
    """Rename atom and lattice identities by first appearance in a fixed traversal."""
    outcome, objs, atoms = snap
    amap, lmap = {}, {}

    def A(x):
        return amap.setdefault(x, len(amap))

    def Lm(x):
        if x is None:
            return None
        return lmap.setdefault(x, len(lmap))

    out = []
    for kind, lat, items in objs:
        row = [kind, Lm(lat)]
        its = []
        for a in items:
            k = A(a)
            tag, al = atoms.get(a, (None, None))
            its.append((k, tag, Lm(al)))
        row.append(its)
        out.append(row)
    oc = outcome
    if outcome[0] == "done" and outcome[1] == "atom":
        oc = ("done", "atom", amap.get(outcome[2], "unknown-atom"))
    return (tuple(oc), out)


# ------------------------------------------------------------------ reading the model driver

def parse_model_line(line):
    """'R <outcome>;G r d;O obj|obj;H t:l ...' -> (snapshot, flags)"""
    parts = line.rstrip("\n").split(";")
    r = parts[0].split()
    assert r[0] == "R", line
    if r[1] == "done":
        if r[2] == "none":
            outcome = ("done", "none", None)
        elif r[2] == "atom":
            outcome = ("done", "atom", int(r[3]))
        elif r[2] == "vals":
            outcome = ("done", "vals", tuple(int(x) for x in r[3:]))
        else:
            outcome = ("done", "obj", int(r[3]))
    elif r[1] == "raise":
        outcome = ("raise", r[2])
    else:
        outcome = ("div",)
    g = parts[1].split()
    flags = (int(g[1]), int(g[2]))
    objs = []
    otxt = parts[2][2:] if parts[2].startswith("O ") else parts[2][1:]
    if otxt.strip():
        for o in otxt.split("|"):
            t = o.split()
            if t[0] == "S":
                objs.append(("S", int(t[1]), [int(x) for x in t[2:]]))
            else:
                objs.append(("L", None, [int(x) for x in t[1:]]))
    atoms = {}
    htxt = parts[3][1:].split()
    for i, c in enumerate(htxt):
        tag, lat = c.split(":")
        atoms[i] = (tuple(int(x) for x in tag.split(",")), None if lat == "N" else int(lat))
    return (outcome, objs, atoms), flags


# ------------------------------------------------------------------ the oracle (finder)

COPY_RESULT_OPS = ("Add", "Sub", "Mul", "Copy", "Pickle", "DeepCopy")
SELECT_OPS = ("GetSlice", "GetIdx", "GetMask")


class Oracle:
    """States the property directly on the real objects, independent of the Coq model:
    plain-list semantics of the item sequence, every atom of a Structure refers to its lattice,
    copies are new objects, selections share, no atom in two slots unless asked for."""

    def __init__(self, real):
        self.R = real
        self.lat_bad = set()      # (id(struct), id(atom)) pairs already reported/known
        self.dup_bad = set()

    def before(self, op):
        R = self.R
        self.pre_lists = [list(list.__iter__(o)) for o in R.objs]
        self.pre_lats = [o.lattice if isinstance(o, R.Structure) else None for o in R.objs]
        self.pre_atom_lats = [[a.lattice for a in l] for l in self.pre_lists]
        self.pre_atom_ids = {id(a) for l in self.pre_lists for a in l}
        # keep every pre-existing atom and lattice object alive beyond the call: an operation may drop the
        # last reference to a lattice and a new object could then reuse its id()
        lat_objs = []
        for l, L in zip(self.pre_lists, self.pre_lats):
            if L is not None:
                lat_objs.append(L)
            for a in l:
                if a.lattice is not None:
                    lat_objs.append(a.lattice)
        R.graveyard.append((self.pre_lists, lat_objs))
        self.pre_lat_ids = {id(x) for x in lat_objs}
        self.pre_n = len(R.objs)

    # expected plain-list result: (target handle or "new", expected list of atom objects) or ("raise",)
    def expected(self, op):
        R = self.R
        P = self.pre_lists
        name = op[0]

        def ref(r):
            return P[r[0]][r[1]]      # plain list indexing (IndexError for bad index)

        try:
            if name == "Append":
                return (op[1], P[op[1]] + [ref(op[2])])
            if name == "Insert":
                b = list(P[op[1]])
                b.insert(op[2], ref(op[3]))
                return (op[1], b)
            if name in ("Extend", "IAdd"):
                return (op[1], P[op[1]] + P[op[2]])
            if name == "AddNewAtom":
                return (op[1], P[op[1]] + [None])
            if name in ("SetCol", "AssignUniqueLabels"):
                if name == "SetCol" and len(P[op[1]]) and len(op[3]) not in (1, len(P[op[1]])):
                    raise ValueError
                return (op[1], list(P[op[1]]))
            if name == "Sort":
                b = list(P[op[1]])
                if op[2] < 0:
                    if len(b) > 1:
                        raise TypeError
                else:
                    b.sort(key=lambda a: decode(a)[op[2]], reverse=bool(op[3]))
                return (op[1], b)
            if name == "GetLast":
                return ("atom", P[op[1]][-1])
            if name == "GetCol":
                return ("vals", [decode(a)[op[2]] for a in P[op[1]]])
            if name == "Composition":
                tot = {}
                for a in P[op[1]]:
                    d = decode(a)
                    tot[d[0]] = tot.get(d[0], 0) + d[3]
                return ("vals", [x for kv in tot.items() for x in kv])
            if name == "SetInt":
                b = list(P[op[1]])
                a = ref(op[3])
                b[op[2]] = a
                return (op[1], b)
            if name == "SetSlice":
                b = list(P[op[1]])
                b[slice(*op[2])] = list(P[op[3]])
                return (op[1], b)
            if name == "DelInt":
                b = list(P[op[1]])
                del b[op[2]]
                return (op[1], b)
            if name == "DelSlice":
                b = list(P[op[1]])
                del b[slice(*op[2])]
                return (op[1], b)
            if name == "Pop":
                b = list(P[op[1]])
                b.pop() if op[2] is None else b.pop(op[2])
                return (op[1], b)
            if name == "Remove":
                b = list(P[op[1]])
                a = ref(op[2])
                k = [i for i, x in enumerate(b) if x is a]
                if not k:
                    raise ValueError
                del b[k[0]]
                return (op[1], b)
            if name == "Reverse":
                return (op[1], P[op[1]][::-1])
            if name == "Clear":
                return (op[1], [])
            if name == "Add":
                return ("new", P[op[1]] + P[op[2]])
            if name == "Sub":
                other = {id(a) for a in P[op[2]]}
                return ("new", [a for a in P[op[1]] if id(a) not in other])
            if name == "ISub":
                other = {id(a) for a in P[op[2]]}
                return (op[1], [a for a in P[op[1]] if id(a) not in other])
            if name == "Mul":
                return ("new", P[op[1]] * op[2])
            if name == "IMul":
                return (op[1], P[op[1]] * op[2])
            if name in ("Copy", "Pickle", "DeepCopy", "Tolist", "Construct"):
                return ("new", list(P[op[1]]))
            if name == "CopyInto":
                return (op[2], list(P[op[1]]))
            if name == "GetSlice":
                return ("new", P[op[1]][slice(*op[2])])
            if name == "GetMask":
                if len(op[2]) not in (0, len(P[op[1]])):      # numpy accepts an empty boolean index
                    raise IndexError
                return ("new", [a for a, m in zip(P[op[1]], op[2]) if m])
            if name == "GetIdx":
                b = P[op[1]]
                if op[2] and not op[3]:
                    raise ValueError
                sel = []
                for k, v in op[3]:
                    if k:
                        hits = [i for i, a in enumerate(b) if str(a.label) == label_str(v)]
                        if len(hits) != 1:
                            raise IndexError
                        v = hits[0]
                    if not -len(b) <= v < len(b):
                        raise IndexError
                    sel.append(v)
                return ("new", [b[i] for i in sel])
            if name in ("GetInt",):
                b = P[op[1]]
                return ("atom", b[op[2]])
            if name == "GetLabel":
                hits = [a for a in P[op[1]] if str(a.label) == label_str(op[2])]
                if len(hits) != 1:
                    raise IndexError
                return ("atom", hits[0])
        except (IndexError, ValueError, TypeError):
            return ("raise",)
        return None

    def asked_dup(self, op):
        """did the caller ask for an atom in two slots (copy=False, repeated member in a slice
        assignment, repeated index) or does the source already hold one ?"""
        P = self.pre_lists
        name = op[0]

        def hasdup(l):
            return len({id(a) for a in l}) != len(l)
        if name in ("Append", "Insert", "SetInt") and not op[-1]:
            return True
        if name == "Extend" and op[3] == 2:
            return True
        if name == "SetSlice":
            if not op[4]:
                return True
            try:
                keep = {id(a) for a in P[op[1]][slice(*op[2])]}
            except ValueError:
                return False
            vals = [id(a) for a in P[op[3]] if id(a) in keep]
            return len(set(vals)) != len(vals)
        if name == "GetIdx":
            b = P[op[1]]
            n = len(b)
            seen = set()
            for k, v in op[3]:
                if k:
                    hits = [i for i, a in enumerate(b) if str(a.label) == label_str(v)]
                    v = hits[0] if len(hits) == 1 else None
                elif n:
                    v = v % n
                if v in seen:
                    return True
                seen.add(v)
            return hasdup(b)
        if name in ("GetSlice", "GetMask", "Tolist", "Pickle", "CopyInto"):
            return hasdup(P[op[1]])
        return False

    def after(self, op, outcome):
        """returns list of (key, what, excuse) violations of the property text at this step;
        excuse = None | (flag index, key to use when the model's ghost flag confirms that the
        history left the guarded fragment: 0 = g_repoint, 1 = g_dup)"""
        R = self.R
        name = op[0]
        out = []
        post_lists = [list(list.__iter__(o)) for o in R.objs]
        raised = outcome[0] == "raise"
        if outcome[0] == "div":
            return [("diverges:%s" % name, "%s does not terminate (no result after %.1f s)" % (op_text(op), ALARM_S), None)]
        if raised and outcome[1] == "BadObj":
            return []
        if raised and outcome[1] not in ("IndexError", "ValueError", "TypeError"):
            out.append(("exception:%s:%s" % (name, outcome[1]), "%s raised %s" % (op_text(op), outcome[1]), None))
        exp = self.expected(op)
        target = None
        # (1) plain-list semantics
        if exp is not None:
            if exp[0] == "raise":
                if not raised:
                    out.append(("list:%s:no-exception" % name, "%s succeeded where the plain list operation raises" % op_text(op), None))
            elif raised:
                out.append(("list:%s:exception" % name, "%s raised %s where the plain list operation succeeds" % (op_text(op), outcome[1]), None))
            elif exp[0] == "atom":
                if not (outcome[1] == "atom" and outcome[2] == id(exp[1])):
                    out.append(("list:%s:result" % name, "%s returned another object than the plain list lookup" % op_text(op), None))
            elif exp[0] == "vals":
                if not (outcome[1] == "vals" and list(outcome[2]) == list(exp[1])):
                    out.append(("column:%s:values" % name, "%s returned %s, the atoms of the plain list give %s" % (
                        op_text(op), list(outcome[2]) if outcome[1] == "vals" else outcome, list(exp[1])), None))
            else:
                target = outcome[2] if exp[0] == "new" else exp[0]
                if exp[0] == "new" and not (outcome[1] == "obj" and outcome[2] >= self.pre_n):
                    out.append(("list:%s:not-new" % name, "%s did not return a new object" % op_text(op), None))
                    target = None
                if exp[0] != "new" and name in ("IAdd", "ISub", "IMul", "CopyInto") and not (outcome[1] == "obj" and outcome[2] == exp[0]):
                    out.append(("list:%s:result" % name, "%s did not return the receiver" % op_text(op), None))
                if target is not None:
                    got = post_lists[target]
                    want = exp[1]
                    gl = [decode(a) for a in got]
                    wl = [tuple(op[2]) if a is None else decode(a) for a in want]
                    if gl != wl:
                        out.append(("list:%s:sequence" % name, "%s: payloads (element, label, xyz, occupancy) %s, the same operation on a plain list gives %s" % (op_text(op), gl, wl), None))
                    # payload-only operations keep every identity; whole-column assignment writes the given column
                    if name in ("SetCol", "AssignUniqueLabels", "Sort") and sorted(map(id, got)) != sorted(map(id, want)):
                        out.append(("column:%s:identity" % name, "%s changed the atom objects of the container" % op_text(op), None))
                    if name == "SetCol" and got:
                        vals = list(op[3]) * len(got) if len(op[3]) == 1 else list(op[3])
                        last = {}
                        for a, v in zip(got, vals):
                            last[id(a)] = v
                        if any(decode(a)[op[2]] != last[id(a)] for a in got):
                            out.append(("column:SetCol:values", "%s: column reads back %s" % (op_text(op), [decode(a)[op[2]] for a in got]), None))
                    if name == "AssignUniqueLabels":
                        labs = {}
                        for a in got:
                            labs.setdefault(str(a.label), set()).add(id(a))
                        if any(len(v) > 1 for v in labs.values()):
                            out.append(("column:AssignUniqueLabels:not-unique", "%s: two atom objects share a label" % op_text(op), None))
                    # (4) selections share exactly the selected objects and the receiver's lattice
                    if name in SELECT_OPS or name == "Tolist":
                        if [id(a) for a in got] != [id(a) for a in want]:
                            out.append(("selection:%s:identity" % name, "%s does not hold the selected atom objects" % op_text(op), None))
                        if name in SELECT_OPS and R.objs[target].lattice is not self.pre_lats[op[1]]:
                            out.append(("selection:%s:lattice" % name, "%s does not share the receiver's lattice" % op_text(op), None))
                    # (3) results documented as copies are new objects
                    if name in COPY_RESULT_OPS or (name == "Construct" and isinstance(R.objs[op[1]], R.Structure)):
                        if any(id(a) in self.pre_atom_ids for a in got):
                            out.append(("copy:%s:shares-atom" % name, "%s shares an atom with an existing object" % op_text(op), None))
                        L = R.objs[target].lattice
                        if not (name == "Construct" and op[2] >= 0) and (L is None or id(L) in self.pre_lat_ids):
                            out.append(("copy:%s:shares-lattice" % name, "%s shares its lattice with an existing object" % op_text(op), None))
                    # (3') copying insertions add new objects only
                    copying = (name in ("Append", "Insert", "SetInt", "SetSlice") and op[-1]) or name in ("IAdd", "IMul") \
                        or (name == "Extend" and (op[3] == 1 or (op[3] == 0 and isinstance(R.objs[op[2]], R.Structure)))) \
                        or name == "CopyInto"
                    if copying:
                        old = {id(a) for a in self.pre_lists[target]}
                        added = [a for a in got if id(a) not in old]
                        if any(id(a) in self.pre_atom_ids for a in added):
                            out.append(("copy:%s:inserted-shared" % name, "%s inserted an existing atom object instead of a copy" % op_text(op), None))
        # frame: nothing else changes its item sequence (identity)
        for i, (b, a) in enumerate(zip(self.pre_lists, post_lists)):
            if i != target or raised:
                if [id(x) for x in b] != [id(x) for x in a]:
                    out.append(("frame:%s" % name, "%s changed the items of object %d" % (op_text(op), i), None))
        # a failed operation leaves every pre-existing atom's lattice reference alone (since fix/c0816b also a failed
        # non-copying __setitem__: the store comes first, the re-link only after it succeeded)
        if raised:
            for l, lats in zip(self.pre_lists, self.pre_atom_lats):
                for a, L0 in zip(l, lats):
                    if a.lattice is not L0:
                        out.append(("failed-op-relinked:%s" % name, "%s raised %s but atom %r now refers to another lattice" % (
                            op_text(op), outcome[1], str(a.label)), None))
                        break
        # (2) every atom of a Structure refers to that structure's lattice
        structs = [(i, o) for i, o in enumerate(R.objs) if isinstance(o, R.Structure)]
        holders = {}
        for i, o in structs:
            for a in post_lists[i]:
                holders.setdefault(id(a), []).append(i)
        for i, o in structs:
            for a in post_lists[i]:
                if a.lattice is not o.lattice:
                    pair = (id(o), id(a))
                    if pair in self.lat_bad:
                        continue
                    self.lat_bad.add(pair)
                    # the atom is (or was when the operation started) held by another live Structure:
                    # one object cannot refer to the lattices of two containers
                    shared = any(j != i for j in holders[id(a)]) or any(
                        j != i and isinstance(R.objs[j], R.Structure) and any(x is a for x in self.pre_lists[j])
                        for j in range(self.pre_n))
                    excuse = None
                    if shared:
                        excuse = (0, "D10:shared:%s" % name)
                    key = "lattice:%s:%s" % (name, "none" if a.lattice is None else "other")
                    out.append((key, "after %s atom %r of object %d refers to %s" % (
                        op_text(op), str(a.label), i, "no lattice" if a.lattice is None else "a lattice that is not the container's"), excuse))
        # (5) no atom in two slots unless asked
        for i, o in structs:
            ids = [id(a) for a in post_lists[i]]
            if len(set(ids)) != len(ids) and id(o) not in self.dup_bad:
                self.dup_bad.add(id(o))
                if not self.asked_dup(op):
                    out.append(("dup:%s" % name, "after %s object %d holds one atom in two slots" % (op_text(op), i), None))
        return out


# ------------------------------------------------------------------ generator

class Gen:
    """Online generator: looks at the live real objects to produce mostly valid operations, plus a
    stream of invalid indices / labels / shapes."""

    def __init__(self, rng, real, p_invalid=0.12, allow_self_extend=True):
        self.rng = rng
        self.R = real
        self.tag = 0
        self.p_invalid = p_invalid
        self.allow_self_extend = allow_self_extend

    def fresh_tag(self):
        self.tag += 1
        return self.tag

    def fresh_pay(self):
        rng = self.rng
        return (rng.choice([0, 0, 0, 1, 2, 3, 4, 7]), self.fresh_tag(), rng.randrange(16), rng.choice([8, 8, 8, 4, 2, 6]))

    def structs(self):
        return [i for i, o in enumerate(self.R.objs) if isinstance(o, self.R.Structure)]

    def nonempty(self):
        return [i for i, o in enumerate(self.R.objs) if len(o)]

    def prelude(self):
        rng = self.rng
        ops = [("NewStruct",)]
        for _ in range(rng.choice([0, 1, 2, 3, 3, 4, 5])):
            ops.append(("AddNewAtom", 0, self.fresh_pay()))
        if rng.random() < 0.5:
            ops.append(("NewList", [self.fresh_pay() for _ in range(rng.choice([0, 1, 2, 3]))]))
        if rng.random() < 0.3:
            ops.append(("NewStruct",))
        return ops

    def index(self, n, invalid=False):
        rng = self.rng
        if invalid or n == 0:
            return rng.choice([n, n + 1, -n - 1, -n - 3, n + 5])
        return rng.randrange(-n, n)

    def slice(self, n, invalid=False):
        rng = self.rng
        if invalid:
            return (rng.choice([None, 0, 1]), rng.choice([None, n]), 0)

        def b():
            return rng.choice([None, None, rng.randint(-n - 2, n + 2)])
        step = rng.choice([None, None, None, 1, 1, 2, -1, -2, 3, -3])
        return (b(), b(), step)

    def aref(self, invalid=False):
        rng = self.rng
        ne = self.nonempty()
        if invalid or not ne:
            o = rng.randrange(len(self.R.objs))
            return (o, len(self.R.objs[o]) + rng.choice([0, 1, 3]))
        o = rng.choice(ne)
        return (o, rng.randrange(-len(self.R.objs[o]), len(self.R.objs[o])))

    def next(self):
        rng, R = self.rng, self.R
        S = self.structs()
        if not S:
            return ("NewStruct",)
        h = rng.choice(S)
        n = len(R.objs[h])
        inv = rng.random() < self.p_invalid
        big = n >= MAXLEN
        many = len(R.objs) >= 12
        any_obj = rng.randrange(len(R.objs))
        small_objs = [i for i, o in enumerate(R.objs) if len(o) <= 6] or [any_obj]
        src = rng.choice(small_objs)
        labels = [str(a.label) for a in list.__iter__(R.objs[h])]

        def lab(invalid=False):
            if invalid or not labels:
                return 900 + rng.randrange(5)
            return label_tag(rng.choice(labels))

        choices = [
            (3, "AddNewAtom"), (1, "NewList"), (2, "ListOf"), (2, "Construct"), (4, "Append"), (4, "Insert"),
            (5, "Extend"), (3, "GetInt"), (5, "GetSlice"), (4, "GetIdx"), (3, "GetMask"), (3, "GetLabel"),
            (4, "SetInt"), (6, "SetSlice"), (3, "DelInt"), (3, "DelSlice"), (2, "Pop"), (2, "Remove"), (2, "Reverse"),
            (1, "Clear"), (3, "Add"), (3, "Sub"), (2, "Mul"), (3, "IAdd"), (3, "ISub"), (2, "IMul"), (3, "Copy"),
            (2, "CopyInto"), (4, "SetLattice"), (3, "Pickle"), (2, "DeepCopy"), (2, "Tolist"), (3, "SetCol"), (1, "NewStruct"),
            (2, "Sort"), (2, "AssignUniqueLabels"), (1, "GetLast"), (3, "GetCol"), (2, "Composition"),
        ]
        if big or many:
            grow = {"Extend", "IAdd", "IMul", "Mul", "Add", "Append", "Insert", "AddNewAtom"}
            new = {"NewList", "ListOf", "Construct", "GetSlice", "GetIdx", "GetMask", "Add", "Sub", "Mul", "Copy", "Pickle",
                   "DeepCopy", "Tolist", "NewStruct"}
            choices = [(w, c) for w, c in choices if not (big and c in grow) and not (many and c in new)]
        tot = sum(w for w, _ in choices)
        x = rng.random() * tot
        for w, c in choices:
            x -= w
            if x < 0:
                break
        name = c
        if name == "NewStruct":
            return ("NewStruct",)
        if name == "AddNewAtom":
            return (name, h, self.fresh_pay())
        if name == "NewList":
            return (name, [self.fresh_pay() for _ in range(rng.choice([0, 1, 2, 3]))])
        if name == "ListOf":
            return (name, [self.aref(inv and k == 0) for k in range(rng.choice([0, 1, 2, 3, 4]))])
        if name == "Construct":
            la = rng.choice([-1, -1, -1, -2, rng.choice(S)])
            return (name, src, la)
        if name == "Append":
            return (name, h, self.aref(inv), rng.random() < 0.7)
        if name == "Insert":
            return (name, h, rng.randint(-n - 2, n + 2), self.aref(inv), rng.random() < 0.7)
        if name == "Extend":
            s = h if (self.allow_self_extend and rng.random() < 0.12 and n <= 6) else src
            if s == h and not self.allow_self_extend:
                s = src if src != h else any_obj
            return (name, h, s, rng.choice([0, 0, 1, 2]))
        if name == "GetInt":
            return (name, h, self.index(n, inv))
        if name == "GetSlice":
            return (name, h, self.slice(n, inv))
        if name == "GetIdx":
            k = rng.choice([0, 1, 2, 2, 3, 4])
            items = []
            for j in range(k):
                if rng.random() < 0.35:
                    items.append((1, lab(inv and j == 0)))
                else:
                    items.append((0, self.index(n, inv and j == 0)))
            return (name, h, rng.random() < 0.4, items)
        if name == "GetMask":
            m = [rng.random() < 0.5 for _ in range(n + (rng.choice([1, -1, 2]) if inv else 0) if n or inv else 0)]
            return (name, h, m)
        if name == "GetLabel":
            return (name, h, lab(inv))
        if name == "SetInt":
            return (name, h, self.index(n, inv), self.aref(), rng.random() < 0.7)
        if name == "SetSlice":
            sl = self.slice(n, inv and rng.random() < 0.3)
            v = h if rng.random() < 0.15 else src
            if sl[2] not in (None, 1) and not inv and sl[2] != 0:
                # extended slice: try to find a source of the right size
                k = len(range(*slice(*sl).indices(n)))
                cands = [i for i, o in enumerate(R.objs) if len(o) == k]
                if cands:
                    v = rng.choice(cands)
            return (name, h, sl, v, rng.random() < 0.75)
        if name == "DelInt":
            return (name, h, self.index(n, inv))
        if name == "DelSlice":
            return (name, h, self.slice(n, inv))
        if name == "Pop":
            return (name, h, None if rng.random() < 0.4 else self.index(n, inv))
        if name == "Remove":
            if n and not inv and rng.random() < 0.8:
                return (name, h, (h, rng.randrange(n)))
            return (name, h, self.aref())
        if name in ("Reverse", "Clear", "Copy", "DeepCopy", "Tolist"):
            return (name, h)
        if name in ("Add", "Sub", "ISub"):
            return (name, h, h if rng.random() < 0.1 else src)
        if name == "IAdd":
            s = h if (self.allow_self_extend and rng.random() < 0.15 and n <= 6) else src
            if s == h and not self.allow_self_extend:
                s = any_obj if any_obj != h else src
            if s == h and not self.allow_self_extend:
                return ("Reverse", h)
            return (name, h, s)
        if name in ("Mul", "IMul"):
            return (name, h, rng.choice([-1, 0, 1, 2, 2, 3]) if n <= 4 else rng.choice([-1, 0, 1, 2]))
        if name == "CopyInto":
            return (name, h, rng.choice(S))
        if name == "SetLattice":
            return (name, h, rng.choice([-2, -2, rng.choice(S)]), rng.random() < 0.3)
        if name == "Pickle":
            return (name, h, rng.random() < 0.6)
        if name == "SetCol":
            col = rng.choice([0, 1, 1, 2, 3])

            def val():
                if col == 0:
                    return rng.randrange(len(ELEMENTS))
                if col == 1:
                    return self.fresh_tag() if rng.random() < 0.8 else max(lab(), 0)
                if col == 2:
                    return rng.randrange(16)
                return rng.choice([8, 4, 2, 6, 1])
            if inv:
                return (name, h, col, [val() for _ in range(n + 2)])
            if rng.random() < 0.3:
                return (name, h, col, [val()])
            return (name, h, col, [val() for _ in range(n)])
        if name == "Sort":
            return (name, h, rng.choice([-1, 0, 1, 1, 2, 3]), rng.random() < 0.4)
        if name in ("AssignUniqueLabels", "GetLast", "Composition"):
            return (name, h)
        if name == "GetCol":
            return (name, h, rng.randrange(4))
        raise AssertionError(name)


def generate_sequence(rng, maxlen, p_invalid=0.12, allow_self_extend=True):
    """Generate a sequence online (executing it on real objects to know the shapes)."""
    R = Real()
    G = Gen(rng, R, p_invalid, allow_self_extend)
    ops = []
    for op in G.prelude():
        ops.append(op)
        R.step(op)
    while len(ops) < maxlen:
        op = G.next()
        ops.append(op)
        oc = R.step(op)
        if oc[0] == "div":
            break
    return ops
