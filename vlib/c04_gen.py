"""C04 helpers: structure generator, implementation round-trip oracle (the finder), views.

Everything here talks to the REAL implementation (diffpy.structure imported from $VERIF_REPO/src).
The oracle states the property text directly:
  S1 = read(write(S0)) carries the same lattice / atom order / elements / positions / occupancies /
  displacement parameters that the format records, to the precision the format prints (PREC, pinned);
  S2 = read(write(S1)), S3 = read(write(S2)): text and structure unchanged from the 2nd trip on,
  no growth, no failure.
"""
import contextlib
import io
import math
import os

import numpy

FORMATS = ["xyz", "rawxyz", "pdffit", "discus", "pdb", "xcfg", "cif"]

# pinned printed precision of each format (what "the precision the format prints" meant on the verified tree).
# kind "dec": decimals after the point; "sig": significant digits.
PREC = {
    "xyz": {"cart": ("sig", 6)},
    "rawxyz": {"cart": ("sig", 6)},
    "pdffit": {"cell": ("dec", 6), "xyz": ("dec", 8), "occ": ("dec", 4), "U": ("dec", 8)},
    "discus": {"cell": ("dec", 6), "xyz": ("dec", 8), "B": ("dec", 4)},
    "pdb": {"abc": ("dec", 3), "angles": ("dec", 2), "cart": ("dec", 3), "occ": ("dec", 2), "B": ("dec", 2), "U": ("dec", 4)},
    "xcfg": {"base": ("sig", 8), "pos": ("sig", 8), "occ": ("sig", 8), "U": ("sig", 8)},
    "cif": {"cell": ("sig", 6), "xyz": ("dec", 6), "occ": ("dec", 4), "Uiso": ("dec", 6), "U": ("dec", 6)},
}

ELEMENTS = ["C", "Ni", "Na", "O", "Cl", "H", "Pb", "Te", "Cd", "Se", "Ti", "Ba"]
IONS = ["Na1+", "O2-", "Cl1-", "Ti4+", "Ba2+"]
TITLES = ["", "test", "a title with blanks", "Ni fcc", "PbTe  double  blank", "x", "cell 1 2 3", "atoms", "title", "#1",
          "format pdffit", "A, B; C", "1", "0"]


def tol(spec, value, slack=1.02, scale=1.0):
    """Largest admissible |read - written| for a value printed with `spec` ('dec'|'sig', digits)."""
    kind, n = spec
    if kind == "dec":
        return slack * scale * 10.0 ** (-n) + 1e-12 * abs(value)
    if value == 0:
        return 1e-300
    e = math.floor(math.log10(abs(value)))
    return slack * scale * 10.0 ** (e - n + 1) * 1.0000001 + 1e-15 * abs(value)


# ---------------------------------------------------------------------------------------------
# generation


def _r(rng, lo, hi, nd):
    return round(rng.uniform(lo, hi), nd)


def gen_lattice(rng, hard=False):
    from diffpy.structure import Lattice
    kind = rng.choice(["cubic", "tetra", "ortho", "mono", "tric", "hex", "rhomb", "unit"])
    nd = rng.choice([0, 1, 2, 3, 4, 6]) if not hard else rng.choice([3, 6, 9])
    lo, hi = (2.0, 14.0) if not hard else rng.choice([(0.5, 3.0), (2.0, 14.0), (50.0, 900.0)])
    L = lambda: max(_r(rng, lo, hi, nd), 0.5)   # noqa: E731
    A = lambda a, b: _r(rng, a, b, rng.choice([0, 1, 2, 3]))   # noqa: E731
    if kind == "cubic":
        a = L()
        p = (a, a, a, 90, 90, 90)
    elif kind == "tetra":
        a = L()
        p = (a, a, L(), 90, 90, 90)
    elif kind == "ortho":
        p = (L(), L(), L(), 90, 90, 90)
    elif kind == "mono":
        p = (L(), L(), L(), 90, A(91, 130), 90)
    elif kind == "tric":
        while True:
            p = (L(), L(), L(), A(65, 115), A(65, 115), A(65, 115))
            al, be, ga = [math.radians(x) for x in p[3:]]
            v2 = 1 - math.cos(al) ** 2 - math.cos(be) ** 2 - math.cos(ga) ** 2 + 2 * math.cos(al) * math.cos(be) * math.cos(ga)
            if v2 > 0.2:
                break
    elif kind == "hex":
        a = L()
        p = (a, a, L(), 90, 90, 120)
    elif kind == "rhomb":
        a = L()
        al = A(50, 110)
        p = (a, a, a, al, al, al)
    else:
        p = (1, 1, 1, 90, 90, 90)
    return kind, Lattice(*p)


def gen_structure(rng, fmt=None, hard=False, natoms=None):
    """Random structure description; returns (Structure, meta).  `hard` widens magnitudes toward width limits."""
    from diffpy.structure import Structure
    from diffpy.structure.pdffitstructure import PDFFitStructure
    kind, lat = gen_lattice(rng, hard)
    pdf = rng.random() < 0.3
    s = PDFFitStructure(lattice=lat) if pdf else Structure(lattice=lat)
    s.title = rng.choice(TITLES)
    if pdf:
        s.pdffit["scale"] = _r(rng, 0.1, 2, 4)
        s.pdffit["delta2"] = _r(rng, 0, 5, 3)
        s.pdffit["delta1"] = _r(rng, 0, 2, 3)
        s.pdffit["sratio"] = _r(rng, 0.5, 1, 3)
        s.pdffit["rcut"] = _r(rng, 0, 4, 2)
        s.pdffit["spcgr"] = rng.choice(["P1", "Fm-3m", "P63/mmc", "P 21/c"])
        if rng.random() < 0.3:
            s.pdffit["spdiameter"] = _r(rng, 5, 50, 2)
        if rng.random() < 0.2:
            s.pdffit["stepcut"] = _r(rng, 5, 50, 2)
        s.pdffit["dcell"] = [_r(rng, 0, 0.01, 5) for _ in range(6)]
    if natoms is None:
        natoms = rng.choice([0, 1, 1, 2, 3, 4, 6, 9])
    ions = rng.random() < 0.25
    adpmix = rng.choice(["zero", "iso", "aniso", "mix", "mix"])
    occmix = rng.choice(["unit", "unit", "partial"])
    posnd = rng.choice([1, 2, 3, 6, 8, 12])
    posrange = rng.choice(["cell", "cell", "cell", "wide"]) if not hard else rng.choice(["cell", "wide", "huge"])
    for _ in range(natoms):
        el = rng.choice(IONS if ions and rng.random() < 0.7 else ELEMENTS)
        if posrange == "cell":
            xyz = [min(_r(rng, 0, 1, posnd), 0.999999) for _ in range(3)]
        elif posrange == "wide":
            xyz = [_r(rng, -2, 3, posnd) for _ in range(3)]
        else:
            xyz = [_r(rng, -150, 150, posnd) for _ in range(3)]
        if rng.random() < 0.08:
            xyz[rng.randrange(3)] = 0.0
        occ = 1.0 if occmix == "unit" or rng.random() < 0.4 else rng.choice([0.5, 0.25, 0.1234, 0.98765, _r(rng, 0, 1, 3)])
        k = adpmix if adpmix != "mix" else rng.choice(["zero", "iso", "aniso"])
        if k == "zero":
            s.addNewAtom(el, xyz=xyz, occupancy=occ)
        elif k == "iso":
            u = _r(rng, 0.001, 0.08, rng.choice([3, 4, 6, 9])) or 0.001
            s.addNewAtom(el, xyz=xyz, occupancy=occ, Uisoequiv=u)
        else:
            nd = rng.choice([3, 4, 6, 9])
            U = numpy.zeros((3, 3))
            for i in range(3):
                U[i, i] = _r(rng, 0.002, 0.08, nd) or 0.002
            shape = rng.random()
            if shape < 0.15:
                # site-symmetry shaped tensors: equal diagonal (3-fold axis of a cubic site), two equal entries
                U[1, 1] = U[2, 2] = U[0, 0]
            elif shape < 0.25:
                U[1, 1] = U[0, 0]
            for (i, j) in [(0, 1), (0, 2), (1, 2)]:
                if rng.random() < 0.7:
                    U[i, j] = U[j, i] = _r(rng, -0.0015, 0.0015, nd)
            if shape < 0.15:
                # all off-diagonal terms equal and non-zero, or only one of them present
                v = _r(rng, 0.0003, 0.0015, nd) * rng.choice([-1, 1])
                if rng.random() < 0.5:
                    U[0, 1] = U[1, 0] = U[0, 2] = U[2, 0] = U[1, 2] = U[2, 1] = v
                else:
                    U[0, 1] = U[1, 0] = U[1, 2] = U[2, 1] = 0.0
                    U[0, 2] = U[2, 0] = v
            s.addNewAtom(el, xyz=xyz, occupancy=occ, U=U)
    if natoms and rng.random() < 0.12:
        s[rng.randrange(natoms)].label = rng.choice(["C1", "Ni2", "X", "OW"])
    meta = {"cell": kind, "natoms": natoms, "adp": adpmix, "occ": occmix, "ions": ions, "pos": posrange, "pdffit": pdf}
    return s, meta


def describe(s):
    """JSON-able literal description sufficient to rebuild the structure (for replays)."""
    d = {"cls": type(s).__name__, "title": s.title, "latpar": [float(x) for x in s.lattice.abcABG()],
         "baserot": [[float(x) for x in r] for r in s.lattice.baserot],
         "pdffit": None, "atoms": []}
    if getattr(s, "pdffit", None):
        d["pdffit"] = {k: (list(v) if isinstance(v, (list, tuple, numpy.ndarray)) else v) for k, v in s.pdffit.items()}
    for a in s:
        d["atoms"].append({"element": a.element, "label": a.label, "xyz": [float(x) for x in a.xyz], "occupancy": float(a.occupancy),
                           "anisotropy": bool(a.anisotropy), "U": [[float(x) for x in r] for r in a.U]})
    return d


def rebuild(d):
    from diffpy.structure import Lattice, Structure
    from diffpy.structure.pdffitstructure import PDFFitStructure
    lat = Lattice(*d["latpar"], baserot=numpy.array(d["baserot"]))
    s = (PDFFitStructure if d["cls"] == "PDFFitStructure" else Structure)(lattice=lat)
    s.title = d["title"]
    if d.get("pdffit") and s.pdffit is not None:
        s.pdffit.update(d["pdffit"])
    for a in d["atoms"]:
        if a["anisotropy"]:
            s.addNewAtom(a["element"], xyz=a["xyz"], label=a["label"], occupancy=a["occupancy"], U=numpy.array(a["U"]))
        else:
            s.addNewAtom(a["element"], xyz=a["xyz"], label=a["label"], occupancy=a["occupancy"], Uisoequiv=a["U"][0][0])
    return s


# ---------------------------------------------------------------------------------------------
# representable range of each format (structures outside are counted, not judged)


def representable(s, fmt):
    """None if `s` lies in the representable range of `fmt`, else a short reason."""
    for a in s:
        el = a.element
        if not el or any(c.isspace() or ord(c) > 126 for c in el):
            return "element empty/blank"
    if "\n" in s.title or "\r" in s.title:
        return "title with line break"
    lat = s.lattice
    std = numpy.allclose(lat.baserot, numpy.identity(3), atol=1e-12)
    if fmt in ("xyz", "rawxyz"):
        for a in s:
            for v in a.xyz_cartn:
                if not numpy.isfinite(v):
                    return "non-finite"
        return None
    if fmt in ("pdffit", "discus"):
        if not std:
            return "rotated base (format stores cell parameters only)"
        if max(lat.abcABG()) >= 1e9:
            return "cell too large"
        return None
    if fmt == "pdb":
        if not std:
            return "rotated base (format stores cell parameters only)"
        a_, b_, c_, al, be, ga = lat.abcABG()
        if a_ >= 9999.9995 or max(b_, c_) >= 99999.9995 or max(al, be, ga) >= 999.995:   # reader takes a from columns 8-15
            return "cell exceeds CRYST1 columns"
        if len(s) > 99998:
            return "too many atoms"
        for a in s:
            if len(a.element) > 2:
                return "element wider than the 2-column field"
            if len(a.label or a.element) > 4:
                return "atom name wider than 4 columns"
            for v in a.xyz_cartn:
                if not (-999.9995 < v < 9999.9995):
                    return "coordinate exceeds 8.3 columns"
            if not (-99.995 < a.occupancy < 999.995):
                return "occupancy exceeds 6.2 columns"
            if not (-99.995 < a.Bisoequiv < 999.995):
                return "B exceeds 6.2 columns"
            if numpy.abs(a.U).max() * 1e4 >= 99999.5:
                return "U exceeds 7-column integer (needs a separating blank)"
        return None
    if fmt == "xcfg":
        if len(s) == 0:
            return "empty structure (writer refuses, documented)"
        allxyz = numpy.array([a.xyz for a in s])
        lo, hi = allxyz.min(axis=0), allxyz.max(axis=0)
        if lo.min() < 0:
            return "negative fractional coordinate (writer re-centres the cluster)"
        rng_ = (hi - lo).max()
        if numpy.allclose(lat.abcABG(), (1, 1, 1, 90, 90, 90)):
            rng_ += 2
        A = numpy.ceil(rng_ + 1e-13)
        hv = max(numpy.sqrt(numpy.dot(v, v)) for v in lat.base)
        if hv * A < 3.5:
            A = numpy.ceil(3.5 / hv)
        if (hi / A).max() >= 1.0 or float("%.8g" % (hi / A).max()) >= 1.0:
            return "coordinate span needs re-centring (a reduced coordinate is, or prints as, 1.0)"
        return None
    if fmt == "cif":
        if not std:
            return "rotated base (format stores cell parameters only)"
        for a in s:
            if len(a.element) > 3 and False:
                return "element wider than field"
        return None
    raise ValueError(fmt)


# ---------------------------------------------------------------------------------------------
# oracle


@contextlib.contextmanager
def quiet():
    buf = io.StringIO()
    with contextlib.redirect_stdout(buf), contextlib.redirect_stderr(buf):
        yield


def read_str(text, fmt):
    from diffpy.structure import Structure
    s = Structure()
    with quiet():
        s.readStr(text, fmt)
    return s


def snap(s):
    """Exact snapshot of everything observable (for 'unchanged from the 2nd trip on')."""
    return {"lat": tuple(float(x) for x in s.lattice.abcABG()), "base": tuple(float(x) for x in s.lattice.base.ravel()),
            "title": s.title, "n": len(s),
            "atoms": [(a.element, a.label, tuple(float(x) for x in a.xyz), float(a.occupancy), bool(a.anisotropy),
                       tuple(float(x) for x in numpy.ravel(a.U))) for a in s]}


def _close(x, y, t):
    return abs(x - y) <= t


def compare_carried(fmt, s0, s1, prec=None):
    """Differences between original s0 and re-read s1 in what `fmt` records. Returns list of (field, detail)."""
    P = (prec or PREC)[fmt]
    out = []
    if len(s0) != len(s1):
        return [("natoms", "wrote %d atoms, read %d" % (len(s0), len(s1)))]
    l0, l1 = s0.lattice.abcABG(), s1.lattice.abcABG()
    # lattice
    if fmt in ("pdffit", "discus"):
        for i in range(6):
            if not _close(l0[i], l1[i], tol(P["cell"], l0[i])):
                out.append(("lattice", "abcABG[%d] %r -> %r" % (i, l0[i], l1[i])))
    elif fmt == "pdb":
        for i in range(6):
            if not _close(l0[i], l1[i], tol(P["abc" if i < 3 else "angles"], l0[i])):
                out.append(("lattice", "abcABG[%d] %r -> %r" % (i, l0[i], l1[i])))
    elif fmt == "cif":
        for i in range(6):
            if not _close(l0[i], l1[i], tol(P["cell"], l0[i])):
                out.append(("lattice", "abcABG[%d] %r -> %r" % (i, l0[i], l1[i])))
    elif fmt == "xcfg":
        b0, b1 = s0.lattice.base, s1.lattice.base
        for i in range(3):
            for j in range(3):
                if not _close(b0[i, j], b1[i, j], tol(P["base"], b0[i, j]) + 1e-12):
                    out.append(("lattice", "base[%d,%d] %r -> %r" % (i, j, b0[i, j], b1[i, j])))
    # atoms, in order
    for k, (a0, a1) in enumerate(zip(s0, s1)):
        e0 = a0.element
        if a1.element != e0:
            out.append(("element", "atom %d: %r -> %r" % (k, e0, a1.element)))
        if fmt in ("xyz", "rawxyz", "pdb"):
            c0, c1 = a0.xyz_cartn, a1.xyz_cartn
            for i in range(3):
                if not _close(c0[i], c1[i], tol(P["cart"], c0[i]) + 1e-12):
                    out.append(("position", "atom %d cart[%d] %r -> %r" % (k, i, float(c0[i]), float(c1[i]))))
        elif fmt == "cif":
            # the CIF reader expands under P1 and reduces every site into the cell: positions are compared modulo 1
            for i in range(3):
                d = float(a0.xyz[i]) - float(a1.xyz[i])
                if not abs(d - round(d)) <= tol(P["xyz"], 1.0):
                    out.append(("position", "atom %d xyz[%d] %r -> %r (mod 1)" % (k, i, float(a0.xyz[i]), float(a1.xyz[i]))))
        elif fmt in ("pdffit", "discus"):
            for i in range(3):
                if not _close(a0.xyz[i], a1.xyz[i], tol(P["xyz"], a0.xyz[i])):
                    out.append(("position", "atom %d xyz[%d] %r -> %r" % (k, i, float(a0.xyz[i]), float(a1.xyz[i]))))
        elif fmt == "xcfg":
            for i in range(3):
                # pos = xyz/A printed with 8 significant digits, A <= span+3: absolute error bounded through |xyz|+A
                if not _close(a0.xyz[i], a1.xyz[i], 2e-8 * (abs(a0.xyz[i]) + 4.0)):
                    out.append(("position", "atom %d xyz[%d] %r -> %r" % (k, i, float(a0.xyz[i]), float(a1.xyz[i]))))
        if "occ" in P:
            if not _close(a0.occupancy, a1.occupancy, tol(P["occ"], a0.occupancy)):
                out.append(("occupancy", "atom %d %r -> %r" % (k, a0.occupancy, a1.occupancy)))
        # displacement parameters
        if fmt == "discus":
            if not _close(a0.Bisoequiv, a1.Bisoequiv, tol(P["B"], a0.Bisoequiv)):
                out.append(("adp", "atom %d Bisoequiv %r -> %r" % (k, a0.Bisoequiv, a1.Bisoequiv)))
        elif fmt in ("pdffit", "xcfg", "cif", "pdb"):
            U0, U1 = numpy.array(a0.U), numpy.array(a1.U)
            # a tensor is isotropic when it is a multiple of the lattice's unit isotropic tensor (NOT of the identity: in an
            # oblique cell u*identity is anisotropic); for such atoms pdb/cif/xcfg carry one number, the off-diagonal terms
            # are derived from the (separately rounded) lattice
            iso0 = not s0.lattice.isanisotropic(U0)
            if fmt in ("pdb", "cif", "xcfg") and iso0:
                key = "B" if fmt == "pdb" else ("Uiso" if "Uiso" in P else "U")
                v0, v1 = (a0.Bisoequiv, a1.Bisoequiv) if fmt == "pdb" else (a0.Uisoequiv, a1.Uisoequiv)
                if not _close(v0, v1, tol(P[key], v0, slack=1.6) + 2e-8):     # 2e-8: Lattice._epsilon, the library's own isotropy threshold
                    out.append(("adp", "atom %d %s %r -> %r" % (k, key, v0, v1)))
            else:
                for i in range(3):
                    for j in range(3):
                        if not _close(U0[i, j], U1[i, j], tol(P["U"], U0[i, j], slack=1.6)):
                            out.append(("adp", "atom %d U[%d,%d] %r -> %r" % (k, i, j, float(U0[i, j]), float(U1[i, j]))))
    return out


def compare_stable(sa, sb, periodic=False):
    """Differences between two consecutive re-read structures beyond float noise (1e-9).
    periodic: fractional coordinates compared modulo 1 (CIF reader reduces sites into the cell)."""
    out = []
    A, B = snap(sa), snap(sb)
    if A["n"] != B["n"]:
        return [("natoms", "%d -> %d" % (A["n"], B["n"]))]

    def near(x, y):
        return abs(x - y) <= 1e-9 * max(1.0, abs(x))
    if not all(near(x, y) for x, y in zip(A["base"], B["base"])):
        out.append(("lattice", "%r -> %r" % (A["lat"], B["lat"])))
    if A["title"] != B["title"]:
        out.append(("title", "%r -> %r" % (A["title"], B["title"])))
    for k, (p, q) in enumerate(zip(A["atoms"], B["atoms"])):
        # the anisotropy FLAG may legitimately flip when the tensor is isotropic anyway; the tensor itself is compared below
        if p[0] != q[0] or p[1] != q[1]:
            out.append(("atom", "atom %d element/label %r -> %r" % (k, (p[0], p[1]), (q[0], q[1]))))
        if periodic:
            same = all(abs((x - y) - round(x - y)) <= 1e-9 for x, y in zip(p[2], q[2]))
        else:
            same = all(near(x, y) for x, y in zip(p[2], q[2]))
        if not same:
            out.append(("position", "atom %d xyz %r -> %r" % (k, p[2], q[2])))
        if not near(p[3], q[3]):
            out.append(("occupancy", "atom %d %r -> %r" % (k, p[3], q[3])))
        if not all(near(x, y) for x, y in zip(p[5], q[5])):
            out.append(("adp", "atom %d U %r -> %r" % (k, p[5], q[5])))
    return out


def strip_volatile(fmt, text):
    """Remove what legitimately differs between two writes (CIF creation date)."""
    if fmt == "cif":
        return "\n".join(ln for ln in text.split("\n") if not ln.startswith("_audit_creation_date"))
    return text


def roundtrip_oracle(s0, fmt, trips=3, prec=None):
    """Run the implementation's own round trips. Returns (problems, info): problems = list of
    (kind, field, detail); kind in {"fails","carried","drift","grows"}."""
    problems = []
    texts, strus = [], []
    cur = s0
    for k in range(trips):
        try:
            with quiet():
                t = cur.writeStr(fmt)
        except Exception as e:   # noqa: BLE001
            problems.append(("fails", "write#%d" % (k + 1), "%s: %s" % (type(e).__name__, str(e)[:200])))
            break
        try:
            nxt = read_str(t, fmt)
        except Exception as e:   # noqa: BLE001
            problems.append(("fails", "read#%d" % (k + 1), "%s: %s" % (type(e).__name__, str(e)[:200])))
            texts.append(t)
            break
        texts.append(t)
        strus.append(nxt)
        cur = nxt
    if strus:
        for f, d in compare_carried(fmt, s0, strus[0], prec):
            problems.append(("carried", f, d))
    if len(strus) >= 2:
        for f, d in compare_stable(strus[0], strus[1], fmt == "cif"):
            problems.append(("drift", f, "trip1->trip2: " + d))
    if len(strus) >= 3:
        if strip_volatile(fmt, texts[1]) != strip_volatile(fmt, texts[2]):
            kind = "grows" if len(texts[2]) > len(texts[1]) else "drift"
            problems.append((kind, "text", "text of trip 2 (%d chars) != text of trip 3 (%d chars)" % (len(texts[1]), len(texts[2]))))
        for f, d in compare_stable(strus[1], strus[2], fmt == "cif"):
            problems.append(("drift", f, "trip2->trip3: " + d))
    return problems, {"texts": texts, "strus": strus}
