"""Helpers shared by C01/C10/C14: random valid cells/rotations/bases, live Lattice <-> model record, comparison."""
import math
import os

import numpy

from vlib import core, coqterm

SC = ["a", "b", "c", "alpha", "beta", "gamma", "ca", "cb", "cg", "sa", "sb", "sg", "ar", "br", "cr",
      "alphar", "betar", "gammar", "car", "cbr", "cgr", "sar", "sbr", "sgr"]
MT = ["baserot", "base", "recbase", "normbase", "recnormbase", "metrics", "stdbase", "isotropicunit"]
I9 = (1.0, 0.0, 0.0, 0.0, 1.0, 0.0, 0.0, 0.0, 1.0)


def lat0():
    d = {"l_" + k: 0.0 for k in SC}
    d.update({"l_" + k: I9 for k in MT})
    return d


def load_module(*names):
    text = ""
    for n in names:
        text += open(os.path.join(core.GEN, n)).read() + "\n"
    return coqterm.Module(text, extra={"lat0": lat0()})


def rand_cell(rng):
    """A valid cell; a mix of special (exact-cosine) and oblique angles."""
    while True:
        a, b, c = (round(rng.uniform(1.5, 12.0), rng.choice([0, 1, 3, 6])) for _ in range(3))
        kind = rng.random()
        if kind < 0.25:
            # the angles the code treats specially (_EXACT_COSD through cosd(x) and sind(x) = cosd(90 - x))
            al, be, ga = (rng.choice([30.0, 60.0, 90.0, 120.0, 150.0, 90.0]) for _ in range(3))
        elif kind < 0.33:
            al, be, ga = [rng.choice([30.0, 60.0, 120.0, 150.0])] + [round(rng.uniform(50, 130), 1) for _ in range(2)]
            rng.shuffle([al, be, ga])
            al, be, ga = rng.sample([al, be, ga], 3)
        elif kind < 0.5:
            al, be, ga = 90.0, round(rng.uniform(60, 130), 2), 90.0
        else:
            al, be, ga = (round(rng.uniform(35, 145), rng.choice([1, 3, 5])) for _ in range(3))
        ca, cb, cg = (math.cos(math.radians(x)) for x in (al, be, ga))
        v2 = 1 + 2 * ca * cb * cg - ca * ca - cb * cb - cg * cg
        if v2 > 0.02 and min(a, b, c) > 0:
            return a, b, c, al, be, ga


def rand_rot(rng):
    q = numpy.array([rng.gauss(0, 1) for _ in range(4)])
    q /= numpy.linalg.norm(q)
    w, x, y, z = q
    return numpy.array([[1 - 2 * (y * y + z * z), 2 * (x * y - z * w), 2 * (x * z + y * w)],
                        [2 * (x * y + z * w), 1 - 2 * (x * x + z * z), 2 * (y * z - x * w)],
                        [2 * (x * z - y * w), 2 * (y * z + x * w), 1 - 2 * (x * x + y * y)]])


def rand_base(rng):
    while True:
        B = numpy.array([[rng.uniform(-6, 6) for _ in range(3)] for _ in range(3)])
        d = numpy.linalg.det(B)
        if abs(d) > 2.0:
            if d < 0:
                B[[0, 1]] = B[[1, 0]]
            return B


def flat(m):
    return tuple(float(x) for x in numpy.asarray(m, dtype=float).flatten())


def live_record(L):
    def num(v):
        try:
            return float(v)
        except (TypeError, ValueError):
            return float("nan")          # an attribute that was never written (None) shows up as a difference
    d = {"l_" + k: num(getattr(L, k)) for k in SC}
    d.update({"l_" + k: flat(getattr(L, k)) for k in MT})
    return d


def rel_close(x, y, tol=1e-9):
    return abs(x - y) <= tol * max(1.0, abs(x), abs(y))


def diff_records(model, live, tol=1e-9, skip=()):
    """Names of attributes that differ."""
    bad = []
    for k in SC:
        if k in skip:
            continue
        x, y = model["l_" + k], live["l_" + k]
        if not (rel_close(x, y, tol) or (math.isnan(x) and math.isnan(y))):
            bad.append("%s: model %.12g live %.12g" % (k, x, y))
    for k in MT:
        if k in skip:
            continue
        mx = max(1.0, max(abs(v) for v in live["l_" + k]))
        for i, (x, y) in enumerate(zip(model["l_" + k], live["l_" + k])):
            if abs(x - y) > tol * mx:
                bad.append("%s[%d,%d]: model %.12g live %.12g" % (k, i // 3, i % 3, x, y))
                break
    return bad
