"""C05/C06: exact enumeration of the site-symmetry strata (Wyckoff types) of a tabulated setting.

Everything here is exact (Python ints / Fractions).  Operations come from the fail-closed table
translator (translate/sgtables.py), i.e. from the same data as coq/Gen/SGTables*.v:
an operation is (R, T) with R a tuple of 9 ints and T = 12 * translation as 3 ints.

Discovery of strata of one setting:
  * general position;
  * for every operation g and every shift n in {-1,0,1}^3 the affine solution set of (R-I) x = n - t
    (planes, axes and isolated fixed points);
  * every point of the grid (Z/24)^3 in [0,1)^3 (covers the intersections of axes);
each candidate gives a witness point w with exact stabiliser S = {g : g(w) - w in Z^3}; candidates are grouped by S.
A stratum is then sampled by generic points  w + sum_i (a_i/q_i) f_i  (f_i an exact basis of the common fixed
space of the rotations of S, q_i distinct primes), kept only if their exact stabiliser is again S and the
nearest non-stabiliser image is farther than `margin` (so the float code's 1e-5 tolerance cannot merge it).
"""
from fractions import Fraction
import itertools
import math
import random

import numpy

I9 = (1, 0, 0, 0, 1, 0, 0, 0, 1)
PRIMES = [(101, 103, 107), (109, 113, 127), (131, 137, 139), (149, 151, 157), (163, 167, 173), (179, 181, 191),
          (193, 197, 199), (211, 223, 227), (229, 233, 239), (241, 251, 257)]
BIGPRIMES = [(997, 991, 983), (977, 971, 967), (953, 947, 941), (937, 929, 919)]
SHIFTS = list(itertools.product((-1, 0, 1), repeat=3))
GRID = 24


# ---------------------------------------------------------------- exact linear algebra (Fractions)
def rref(rows, ncols):
    """Reduced row echelon form of a list of rows (Fractions).  Returns (R, pivots)."""
    A = [list(map(Fraction, r)) for r in rows]
    piv = []
    r = 0
    for c in range(ncols):
        p = next((i for i in range(r, len(A)) if A[i][c] != 0), None)
        if p is None:
            continue
        A[r], A[p] = A[p], A[r]
        inv = 1 / A[r][c]
        A[r] = [v * inv for v in A[r]]
        for i in range(len(A)):
            if i != r and A[i][c] != 0:
                f = A[i][c]
                A[i] = [a - f * b for a, b in zip(A[i], A[r])]
        piv.append(c)
        r += 1
        if r == len(A):
            break
    return A[:r], piv


def nullspace(rows, ncols):
    """Canonical basis (from the RREF) of {v : rows . v = 0}."""
    R, piv = rref(rows, ncols)
    free = [c for c in range(ncols) if c not in piv]
    basis = []
    for f in free:
        v = [Fraction(0)] * ncols
        v[f] = Fraction(1)
        for r, p in zip(R, piv):
            v[p] = -r[f]
        basis.append(v)
    return basis


def solve_particular(rows, rhs, ncols):
    """One solution x of rows . x = rhs (Fractions) or None."""
    aug = [list(r) + [b] for r, b in zip(rows, rhs)]
    R, piv = rref(aug, ncols + 1)
    if ncols in piv:
        return None
    x = [Fraction(0)] * ncols
    for r, p in zip(R, piv):
        x[p] = r[ncols]
    return x


def rank(rows, ncols):
    return len(rref(rows, ncols)[1]) if rows else 0


def matinv(M):
    n = len(M)
    aug = [list(map(Fraction, M[i])) + [Fraction(int(i == j)) for j in range(n)] for i in range(n)]
    R, piv = rref(aug, n)
    if piv != list(range(n)):
        return None
    return [r[n:] for r in R]


# ---------------------------------------------------------------- operations
def setting_ops(rots, trs, g):
    return [(tuple(rots[r]), tuple(trs[t])) for r, t in g["ops"]]


def apply_op(op, x):
    """g(x) for x a list of 3 Fractions."""
    R, T = op
    return [R[3 * i] * x[0] + R[3 * i + 1] * x[1] + R[3 * i + 2] * x[2] + Fraction(T[i], 12) for i in range(3)]


def frac1(v):
    return v - math.floor(v)


def box_dist(u, v):
    """periodic box distance max_i min(|d_i| mod 1)."""
    m = Fraction(0)
    for a, b in zip(u, v):
        d = frac1(a - b)
        d = min(d, 1 - d)
        m = max(m, d)
    return m


def stabiliser(ops, x):
    out = []
    for i, op in enumerate(ops):
        y = apply_op(op, x)
        if all((a - b).denominator == 1 for a, b in zip(y, x)):
            out.append(i)
    return out


class OpArrays(object):
    """numpy int64 tables of one setting for batched stabiliser computation."""

    def __init__(self, ops):
        self.n = len(ops)
        self.RmI = numpy.array([[[op[0][3 * i + j] - int(i == j) for j in range(3)] for i in range(3)] for op in ops], dtype=numpy.int64)
        self.T = numpy.array([op[1] for op in ops], dtype=numpy.int64)

    def stabilisers(self, X, den):
        """X: (M,3) int64 numerators over common denominator den.  -> bool array (M, nops)."""
        V = 12 * numpy.einsum("gij,mj->mgi", self.RmI, X) + self.T[None, :, :] * den
        return numpy.all(V % (12 * den) == 0, axis=2)


def _solver_for(R):
    """Row-reduction of (R - I): returns (E, pivots, rank) with E (R-I) = RREF."""
    M = [[Fraction(R[3 * i + j] - int(i == j)) for j in range(3)] for i in range(3)]
    aug = [M[i] + [Fraction(int(i == j)) for j in range(3)] for i in range(3)]
    # eliminate on the first three columns only
    A = aug
    piv = []
    r = 0
    for c in range(3):
        p = next((i for i in range(r, 3) if A[i][c] != 0), None)
        if p is None:
            continue
        A[r], A[p] = A[p], A[r]
        inv = 1 / A[r][c]
        A[r] = [v * inv for v in A[r]]
        for i in range(3):
            if i != r and A[i][c] != 0:
                f = A[i][c]
                A[i] = [a - f * b for a, b in zip(A[i], A[r])]
        piv.append(c)
        r += 1
    E = [row[3:] for row in A]
    return E, piv, r


def discover(ops, rng):
    """-> list of strata: dict(stab=tuple(op indices), w=[3 Fractions], fix=[basis vectors]) sorted by (-|S|, S)."""
    oa = OpArrays(ops)
    cands = {}          # canonical subspace -> witness generic point
    solvers = {}
    pr = PRIMES[0]
    for gi, (R, T) in enumerate(ops):
        if R == I9:
            continue
        if R not in solvers:
            solvers[R] = _solver_for(R)
        E, piv, rk = solvers[R]
        free = [c for c in range(3) if c not in piv]
        for n in SHIFTS:
            b = [Fraction(12 * n[i] - T[i], 12) for i in range(3)]
            y = [sum(E[i][j] * b[j] for j in range(3)) for i in range(3)]
            if any(y[i] != 0 for i in range(rk, 3)):
                continue
            p = [Fraction(0)] * 3
            for j, c in enumerate(piv):
                p[c] = y[j]
            key = (tuple(p), tuple(free), R if free else None)
            if key in cands:
                continue
            # directions from the RREF of (R-I): v[free]=1, v[piv_j] = -RREF[j][free]
            cands[key] = (p, R)
    # witnesses: one generic point per candidate subspace
    pts = []
    for (p, R) in cands.values():
        dirs = nullspace([[R[3 * i + j] - int(i == j) for j in range(3)] for i in range(3)], 3)
        x = list(p)
        for k, d in enumerate(dirs):
            s = Fraction(rng.randrange(1, pr[k]), pr[k])
            x = [a + s * b for a, b in zip(x, d)]
        pts.append([frac1(v) for v in x])
    # grid points
    den = GRID
    g = numpy.arange(GRID, dtype=numpy.int64)
    Xg = numpy.stack(numpy.meshgrid(g, g, g, indexing="ij"), axis=-1).reshape(-1, 3)
    found = {}
    Sg = oa.stabilisers(Xg, den)
    # unique stabiliser rows on the grid
    packed = numpy.packbits(Sg, axis=1)
    _, first = numpy.unique(packed, axis=0, return_index=True)
    for idx in first:
        stab = tuple(int(i) for i in numpy.flatnonzero(Sg[idx]))
        if len(stab) > 1 and stab not in found:
            found[stab] = [Fraction(int(v), den) for v in Xg[idx]]
    if pts:
        L = 1
        for x in pts:
            for v in x:
                L = L * v.denominator // math.gcd(L, v.denominator)
        Xp = numpy.array([[int(v * L) for v in x] for x in pts], dtype=numpy.int64)
        Sp = oa.stabilisers(Xp, L)
        for x, row in zip(pts, Sp):
            stab = tuple(int(i) for i in numpy.flatnonzero(row))
            if len(stab) > 1 and stab not in found:
                found[stab] = x
    # general position
    gp = [Fraction(rng.randrange(1, q), q) for q in pr]
    found[tuple(stabiliser(ops, gp))] = gp
    out = []
    for stab, w in found.items():
        rows = [[ops[i][0][3 * a + b] - int(a == b) for b in range(3)] for i in stab for a in range(3)]
        out.append({"stab": stab, "w": w, "fix": nullspace(rows, 3)})
    out.sort(key=lambda s: (-len(s["stab"]), s["stab"]))
    return out


def sample_point(ops, stratum, rng, big=False, margin=Fraction(1, 500), tries=40):
    """A generic exact point of the stratum (same exact stabiliser, decision margin > `margin`) or None."""
    table = BIGPRIMES if big else PRIMES
    for _ in range(tries):
        pr = table[rng.randrange(len(table))]
        x = list(stratum["w"])
        for k, d in enumerate(stratum["fix"]):
            s = Fraction(rng.randrange(1, pr[k]), pr[k])
            x = [a + s * b for a, b in zip(x, d)]
        x = [frac1(v) for v in x]
        if tuple(stabiliser(ops, x)) != tuple(stratum["stab"]):
            continue
        sset = set(stratum["stab"])
        m = min([box_dist(apply_op(op, x), x) for i, op in enumerate(ops) if i not in sset] or [Fraction(1)])
        if m <= margin:
            continue
        return x
    return None


def orbit(ops, x):
    """Exact orbit of x modulo lattice translations: list of (position in [0,1)^3, first generating op index)."""
    seen = {}
    out = []
    for i, op in enumerate(ops):
        y = tuple(frac1(v) for v in apply_op(op, x))
        if y not in seen:
            seen[y] = i
            out.append((list(y), i))
    return out


def strata_of_setting(args):
    """Worker for multiprocessing: (index, ops, seed) -> (index, strata)."""
    idx, ops, seed = args
    rng = random.Random(seed * 1000003 + idx)
    return idx, discover(ops, rng)


def all_strata(allops, seed, nproc=16):
    """allops: list (per setting) of op lists.  -> list (per setting) of strata."""
    import multiprocessing
    jobs = [(i, ops, seed) for i, ops in enumerate(allops)]
    # big settings first for balance
    jobs.sort(key=lambda j: -len(j[1]))
    with multiprocessing.get_context("fork").Pool(nproc) as pool:
        res = pool.map(strata_of_setting, jobs, chunksize=1)
    out = [None] * len(allops)
    for i, s in res:
        out[i] = s
    return out
