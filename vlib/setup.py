"""./check setup : regenerate every Gen/ unit from /repo and build the whole Coq development."""
import importlib
import os
import sys

from vlib import core



def generators():
    """Every translate/*.py that sets SETUP = True and defines generate()."""
    out = []
    d = os.path.join(core.VERIF, "translate")
    for f in sorted(os.listdir(d)):
        if f.endswith(".py") and not f.startswith("_"):
            txt = open(os.path.join(d, f)).read()
            if "SETUP = True" in txt and "def generate" in txt:
                out.append("translate." + f[:-3])
    return out


def run():
    with core.BuildLock():
        os.makedirs(core.GEN, exist_ok=True)
        for g in generators():
            try:
                mod = importlib.import_module(g)
                for rel, text in mod.generate().items():
                    core.write_if_changed(os.path.join(core.COQ, rel), text)
            except (core.TranslatorRefusal, SyntaxError) as e:
                print("setup: translator %s refused: %s (the per-property check will report it)" % (g, e))
        core.ensure_makefile()
        rc, out = core.sh("timeout 3000 make -k -j%d 2>&1 | grep -v '^COQC\\|^COQDEP' | tail -40" % core.NPROC, cwd=core.COQ)
        print(out)
        ext = os.path.join(core.VERIF, "ocaml")
        if os.path.isdir(ext):
            for d in sorted(os.listdir(ext)):
                b = os.path.join(ext, d, "build.sh")
                if os.path.exists(b):
                    rc2, out2 = core.sh("timeout 900 bash build.sh", cwd=os.path.join(ext, d), timeout=930)
                    print("ocaml/%s: rc=%d\n%s" % (d, rc2, out2[-1500:]))
    hits = core.scan_forbidden()
    for h in hits:
        print("forbidden vernacular: %s:%d %s" % h)
    return 0
