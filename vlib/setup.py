"""./check setup : regenerate every Gen/ unit from /repo and build the whole Coq development."""
import importlib
import os
import sys

from vlib import core

GENERATORS = ["translate.sgtables", "translate.latrules"]


def run():
    with core.BuildLock():
        os.makedirs(core.GEN, exist_ok=True)
        for g in GENERATORS:
            try:
                mod = importlib.import_module(g)
                for rel, text in mod.generate().items():
                    core.write_if_changed(os.path.join(core.COQ, rel), text)
            except core.TranslatorRefusal as e:
                print("setup: translator %s refused: %s (the per-property check will report it)" % (g, e))
        core.ensure_makefile()
        rc, out = core.sh("timeout 3000 make -k -j%d 2>&1 | grep -v '^COQC\\|^COQDEP' | tail -40" % core.NPROC, cwd=core.COQ)
        print(out)
        ext = os.path.join(core.VERIF, "ocaml")
        if os.path.exists(os.path.join(ext, "build.sh")):
            rc2, out2 = core.sh("bash build.sh", cwd=ext, timeout=900)
            print(out2[-2000:])
    hits = core.scan_forbidden()
    for h in hits:
        print("forbidden vernacular: %s:%d %s" % h)
    return 0
